// Package simtime stands in for package time inside code compiled against the simulated
// environment: Now() reads the simulator's clock, everything else is the real package.
package simtime

import "time"

type (
	Time     = time.Time
	Duration = time.Duration
)

const (
	RFC3339Nano = time.RFC3339Nano
	RFC3339     = time.RFC3339
	Nanosecond  = time.Nanosecond
	Microsecond = time.Microsecond
	Millisecond = time.Millisecond
	Second      = time.Second
	Minute      = time.Minute
	Hour        = time.Hour
)

// Clock is the simulated wall clock; the harness sets it.
var Clock = time.Date(2024, 1, 1, 0, 0, 0, 0, time.UTC)

func Now() time.Time                  { return Clock }
func Since(t time.Time) time.Duration { return Clock.Sub(t) }
func Until(t time.Time) time.Duration { return t.Sub(Clock) }
func Unix(s, ns int64) time.Time      { return time.Unix(s, ns) }
