// Package cxsim (SIM-C) runs the real certificate-exchange client, server, poller and
// subscriber over an in-memory libp2p host inside a testing/synctest bubble (virtual time).
package cxsim

import (
	"bytes"
	"context"
	"errors"
	"io"
	"sync"
	"time"

	"github.com/libp2p/go-libp2p/core/connmgr"
	"github.com/libp2p/go-libp2p/core/event"
	"github.com/libp2p/go-libp2p/core/network"
	"github.com/libp2p/go-libp2p/core/peer"
	"github.com/libp2p/go-libp2p/core/peerstore"
	"github.com/libp2p/go-libp2p/core/protocol"
	"github.com/libp2p/go-libp2p/p2p/host/eventbus"
	ma "github.com/multiformats/go-multiaddr"
)

// Responder produces the response bytes for a request arriving at a peer.
// It may take (virtual) time and may return an error (stream reset).
type Responder func(req []byte) (resp []byte, err error)

// ReadPlan shapes how the client sees the response bytes.
type ReadPlan struct {
	FirstByteDelay time.Duration // latency before the first byte
	ChunkSize      int           // bytes per Read call (0 = everything)
	ChunkDelay     time.Duration // delay between chunks (trickle)
	CutAfter       int           // >=0: stream ends (EOF or reset) after that many bytes
	CutWithReset   bool
	StallAfter     int // >=0: after that many bytes the stream blocks until reset
}

func DefaultPlan() ReadPlan { return ReadPlan{CutAfter: -1, StallAfter: -1} }

// Net is a set of peers reachable from the client host.
type Net struct {
	mu       sync.Mutex
	handlers map[peer.ID]network.StreamHandler // real server handlers
	scripted map[peer.ID]Responder
	Plan     func(p peer.ID) ReadPlan
	// OnRequest observes every stream opened by the client (virtual time).
	OnRequest func(p peer.ID, at time.Time)
	DialFail  func(p peer.ID) error
	// Sleep, if set, replaces virtual-time waiting inside streams (stepped mock-clock mode).
	Sleep func(d time.Duration)
}

func NewNet() *Net {
	return &Net{handlers: map[peer.ID]network.StreamHandler{}, scripted: map[peer.ID]Responder{}}
}

func (n *Net) SetScripted(p peer.ID, r Responder) {
	n.mu.Lock()
	defer n.mu.Unlock()
	n.scripted[p] = r
}

// Host is the fake host.Host. One instance per node; servers register their handler here.
type Host struct {
	id    peer.ID
	net   *Net
	bus   event.Bus
	peers []peer.ID
	proto protocol.ID
}

func NewHost(id peer.ID, n *Net) *Host { return &Host{id: id, net: n, bus: eventbus.NewBus()} }

func (h *Host) SetPeers(ps []peer.ID, proto protocol.ID) { h.peers, h.proto = ps, proto }

func (h *Host) ID() peer.ID { return h.id }

type fakePeerstore struct {
	peerstore.Peerstore
	h *Host
}

func (f fakePeerstore) FirstSupportedProtocol(p peer.ID, ps ...protocol.ID) (protocol.ID, error) {
	for _, x := range ps {
		if x == f.h.proto {
			return x, nil
		}
	}
	return "", nil
}

func (h *Host) Peerstore() peerstore.Peerstore { return fakePeerstore{h: h} }
func (h *Host) Addrs() []ma.Multiaddr          { return nil }

type fakeNetwork struct {
	network.Network
	h *Host
}

func (f fakeNetwork) Peers() []peer.ID { return append([]peer.ID(nil), f.h.peers...) }

func (h *Host) Network() network.Network                     { return fakeNetwork{h: h} }
func (h *Host) Mux() protocol.Switch                         { return nil }
func (h *Host) Connect(context.Context, peer.AddrInfo) error { return nil }

func (h *Host) SetStreamHandler(pid protocol.ID, handler network.StreamHandler) {
	h.net.mu.Lock()
	defer h.net.mu.Unlock()
	h.net.handlers[h.id] = handler
}

func (h *Host) SetStreamHandlerMatch(pid protocol.ID, _ func(protocol.ID) bool, handler network.StreamHandler) {
	h.SetStreamHandler(pid, handler)
}

func (h *Host) RemoveStreamHandler(protocol.ID) {
	h.net.mu.Lock()
	defer h.net.mu.Unlock()
	delete(h.net.handlers, h.id)
}

func (h *Host) Close() error                     { return nil }
func (h *Host) ConnManager() connmgr.ConnManager { return nil }
func (h *Host) EventBus() event.Bus              { return h.bus }

var ErrReset = errors.New("stream reset")

func (h *Host) NewStream(ctx context.Context, p peer.ID, pids ...protocol.ID) (network.Stream, error) {
	n := h.net
	if n.OnRequest != nil {
		n.OnRequest(p, time.Now())
	}
	if n.DialFail != nil {
		if err := n.DialFail(p); err != nil {
			return nil, err
		}
	}
	n.mu.Lock()
	handler := n.handlers[p]
	scripted := n.scripted[p]
	n.mu.Unlock()
	if handler == nil && scripted == nil {
		return nil, errors.New("no such peer")
	}
	plan := DefaultPlan()
	if n.Plan != nil {
		plan = n.Plan(p)
	}
	return &clientStream{peer: p, handler: handler, scripted: scripted, plan: plan, reset: make(chan struct{}), proto: pids[0], sleep: n.Sleep}, nil
}

// clientStream is the client end. CloseWrite runs the responder synchronously.
type clientStream struct {
	network.Stream
	peer     peer.ID
	proto    protocol.ID
	handler  network.StreamHandler
	scripted Responder
	plan     ReadPlan

	req      bytes.Buffer
	resp     []byte
	respErr  error
	pos      int
	started  bool
	reset    chan struct{}
	sleep    func(time.Duration)
	resetOnce sync.Once
	closed   bool
}

func (s *clientStream) Write(b []byte) (int, error) { return s.req.Write(b) }

func (s *clientStream) CloseWrite() error {
	if s.scripted != nil {
		s.resp, s.respErr = s.scripted(s.req.Bytes())
		return nil
	}
	ss := &serverStream{in: bytes.NewReader(s.req.Bytes())}
	s.handler(ss)
	s.resp = ss.out.Bytes()
	if ss.wasReset {
		s.respErr = ErrReset
	}
	return nil
}

func (s *clientStream) wait(d time.Duration) error {
	if d > 0 && s.sleep != nil {
		s.sleep(d)
		d = 0
	}
	if d <= 0 {
		select {
		case <-s.reset:
			return ErrReset
		default:
			return nil
		}
	}
	t := time.NewTimer(d)
	defer t.Stop()
	select {
	case <-t.C:
		return nil
	case <-s.reset:
		return ErrReset
	}
}

func (s *clientStream) Read(b []byte) (int, error) {
	if !s.started {
		s.started = true
		if err := s.wait(s.plan.FirstByteDelay); err != nil {
			return 0, err
		}
	} else if s.plan.ChunkDelay > 0 {
		if err := s.wait(s.plan.ChunkDelay); err != nil {
			return 0, err
		}
	}
	if err := s.wait(0); err != nil {
		return 0, err
	}
	// limit = how many response bytes the client will ever see; why = what happens after them
	limit, why := len(s.resp), 0 // 0 natural end, 1 cut, 2 stall
	if s.plan.CutAfter >= 0 && s.plan.CutAfter < limit {
		limit, why = s.plan.CutAfter, 1
	}
	if s.plan.StallAfter >= 0 && s.plan.StallAfter <= limit {
		limit, why = s.plan.StallAfter, 2
	}
	if s.pos >= limit {
		switch why {
		case 2:
			<-s.reset
			return 0, ErrReset
		case 1:
			if s.plan.CutWithReset {
				return 0, ErrReset
			}
			return 0, io.EOF
		}
		if s.respErr != nil {
			return 0, s.respErr
		}
		return 0, io.EOF
	}
	n := limit - s.pos
	if n > len(b) {
		n = len(b)
	}
	if s.plan.ChunkSize > 0 && n > s.plan.ChunkSize {
		n = s.plan.ChunkSize
	}
	copy(b, s.resp[s.pos:s.pos+n])
	s.pos += n
	return n, nil
}

func (s *clientStream) Reset() error {
	s.resetOnce.Do(func() { close(s.reset) })
	return nil
}
func (s *clientStream) ResetWithError(network.StreamErrorCode) error { return s.Reset() }
func (s *clientStream) Close() error                                { s.closed = true; return nil }
func (s *clientStream) CloseRead() error                            { return nil }
func (s *clientStream) SetDeadline(time.Time) error                 { return nil }
func (s *clientStream) SetReadDeadline(time.Time) error             { return nil }
func (s *clientStream) SetWriteDeadline(time.Time) error            { return nil }
func (s *clientStream) Protocol() protocol.ID                       { return s.proto }
func (s *clientStream) ID() string                                  { return "sim" }

// serverStream is what a real server handler sees: the complete request, a buffer for its response.
type serverStream struct {
	network.Stream
	in       *bytes.Reader
	out      bytes.Buffer
	wasReset bool
	closed   bool
}

func (s *serverStream) Read(b []byte) (int, error)  { return s.in.Read(b) }
func (s *serverStream) Write(b []byte) (int, error) { return s.out.Write(b) }
func (s *serverStream) Close() error                { s.closed = true; return nil }
func (s *serverStream) CloseWrite() error           { return nil }
func (s *serverStream) CloseRead() error            { return nil }
func (s *serverStream) Reset() error                { s.wasReset = true; return nil }
func (s *serverStream) ResetWithError(network.StreamErrorCode) error {
	s.wasReset = true
	return nil
}
func (s *serverStream) SetDeadline(time.Time) error      { return nil }
func (s *serverStream) SetReadDeadline(time.Time) error  { return nil }
func (s *serverStream) SetWriteDeadline(time.Time) error { return nil }
func (s *serverStream) ID() string                       { return "sim-server" }
