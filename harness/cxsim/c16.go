package cxsim

import (
	"bytes"
	"context"
	"fmt"
	"strings"
	"time"

	"github.com/filecoin-project/go-f3/certexchange"
	"github.com/filecoin-project/go-f3/certexchange/polling"
	"github.com/filecoin-project/go-f3/certs"
	"github.com/filecoin-project/go-f3/certstore"
	"github.com/filecoin-project/go-f3/gpbft"
	"github.com/filecoin-project/go-f3/zz_verif/certgen"
	"github.com/filecoin-project/go-f3/zz_verif/kernel"
	"github.com/filecoin-project/go-f3/zz_verif/simds"
	"github.com/libp2p/go-libp2p/core/peer"
)

var bg = context.Background()

type env struct {
	c    *kernel.Chooser
	r    *kernel.Recorder
	prop string
	viol *kernel.Violation
}

func (e *env) fail(kind, key, format string, args ...any) {
	if e.viol != nil {
		return
	}
	key = kind + ":" + key
	if e.r.KnownFinding(e.prop, key) {
		return
	}
	e.viol = &kernel.Violation{Prop: e.prop, Kind: kind, Key: key, Detail: fmt.Sprintf(format, args...)}
	e.r.Tracef("VIOLATION %s", e.viol.String())
}

const nn = gpbft.NetworkName("verif")

// world is one server with a store, one client, and the honest history.
type world struct {
	*env
	g      *certgen.Gen
	h      *certgen.History
	net    *Net
	srvDS  *simds.DS
	srvCS  *certstore.Store
	server *certexchange.Server
	srvID  peer.ID
	cliHost *Host
	client *certexchange.Client
	stored int // number of certificates of h in the server store
	pollCS *certstore.Store
	poller *polling.Poller
}

func newWorld(e *env, ncerts, stored int, timeout time.Duration) *world {
	w := &world{env: e, g: certgen.New(e.c, true), net: NewNet(), srvID: peer.ID("server-1")}
	first := uint64(e.c.Intn(6))
	if e.c.Chance(100) {
		first = 1<<63 + uint64(e.c.Intn(5))
	}
	w.h = w.g.NewHistory(first, ncerts, 1+e.c.Intn(5), 2)
	w.srvDS = simds.New()
	var err error
	w.srvCS, err = certstore.CreateStore(bg, w.srvDS, first, w.h.Tables[0])
	if err != nil {
		kernel.Infra("CreateStore: %v", err)
	}
	for i := 0; i < stored; i++ {
		if err := w.srvCS.Put(bg, w.h.Certs[i]); err != nil {
			kernel.Infra("Put: %v", err)
		}
	}
	w.stored = stored
	srvHost := NewHost(w.srvID, w.net)
	w.server = &certexchange.Server{RequestTimeout: timeout, NetworkName: nn, Host: srvHost, Store: w.srvCS}
	if err := w.server.Start(bg); err != nil {
		kernel.Infra("server start: %v", err)
	}
	w.cliHost = NewHost(peer.ID("client"), w.net)
	w.cliHost.SetPeers([]peer.ID{w.srvID}, certexchange.FetchProtocolName(nn))
	w.client = &certexchange.Client{Host: w.cliHost, NetworkName: nn, RequestTimeout: timeout}
	return w
}

func (w *world) stop() { _ = w.server.Stop(bg) }

func encReq(req *certexchange.Request) []byte {
	var b bytes.Buffer
	if err := req.MarshalCBOR(&b); err != nil {
		kernel.Infra("marshal request: %v", err)
	}
	return b.Bytes()
}

// rawResponse sends req to the real server handler and returns the raw response bytes.
func (w *world) rawResponse(req *certexchange.Request) ([]byte, error) {
	st, err := w.cliHost.NewStream(bg, w.srvID, certexchange.FetchProtocolName(nn))
	if err != nil {
		return nil, err
	}
	cs := st.(*clientStream)
	_, _ = cs.Write(encReq(req))
	_ = cs.CloseWrite()
	return cs.resp, cs.respErr
}

type rawResp struct {
	hdr   certexchange.ResponseHeader
	certs []*certs.FinalityCertificate
	bytes [][]byte
}

func parseRaw(b []byte) (*rawResp, error) {
	rd := bytes.NewReader(b)
	var out rawResp
	if err := out.hdr.UnmarshalCBOR(rd); err != nil {
		return nil, fmt.Errorf("header: %w", err)
	}
	for rd.Len() > 0 {
		before := rd.Len()
		var ct certs.FinalityCertificate
		if err := ct.UnmarshalCBOR(rd); err != nil {
			return nil, fmt.Errorf("certificate %d: %w", len(out.certs), err)
		}
		start := len(b) - before
		out.bytes = append(out.bytes, b[start:len(b)-rd.Len()])
		out.certs = append(out.certs, &ct)
	}
	return &out, nil
}

// ---- (a) the server serves exact store slices
func (w *world) checkServer() {
	c, h := w.c, w.h
	first := h.First
	pendingBefore := uint64(0)
	if w.stored > 0 {
		pendingBefore = first + uint64(w.stored)
	}
	var req certexchange.Request
	switch c.Intn(6) {
	case 0:
		req.FirstInstance = first + uint64(c.Intn(w.stored+3))
	case 1:
		req.FirstInstance = first
	case 2:
		if first > 0 {
			req.FirstInstance = first - 1
		}
	case 3:
		req.FirstInstance = ^uint64(0) - uint64(c.Intn(3))
	default:
		req.FirstInstance = first + uint64(c.Intn(w.stored+1))
	}
	limits := []uint64{0, 1, 2, 3, 5, 255, 256, 257, 1 << 63, ^uint64(0)}
	req.Limit = limits[c.Intn(len(limits))]
	if c.Chance(300) {
		req.Limit = uint64(c.Intn(w.stored + 2))
	}
	req.IncludePowerTable = c.Chance(400)
	// optionally let the store advance while the response is being produced
	advanced := false
	if w.stored < len(h.Certs) && c.Chance(300) {
		armed := true
		w.srvDS.Gate = func(op, key string) {
			if armed && op == "get" && strings.Contains(key, "/certs/") {
				armed = false
				if err := w.srvCS.Put(bg, h.Certs[w.stored]); err != nil {
					kernel.Infra("concurrent Put: %v", err)
				}
				w.stored++
				advanced = true
				w.r.Fault("store_advanced_mid_response")
			}
		}
	}
	raw, rerr := w.rawResponse(&req)
	w.srvDS.Gate = nil
	w.r.Steps++
	what := fmt.Sprintf("request first=%d limit=%d table=%v (store %d..%d)", req.FirstInstance, req.Limit, req.IncludePowerTable, first, int64(pendingBefore)-1)
	w.r.Tracef("%s -> %d bytes err=%v advanced=%v", what, len(raw), rerr, advanced)
	if len(raw) == 0 {
		// an error before anything was written (e.g. power table not available) serves nothing
		return
	}
	resp, err := parseRaw(raw)
	if err != nil {
		if rerr != nil {
			return // reset mid-way: the client sees an error
		}
		w.fail("server_response_malformed", "server", "%s: raw response does not parse: %v", what, err)
		return
	}
	pend := resp.hdr.PendingInstance
	if pend != pendingBefore && !(advanced && pend == pendingBefore+1) {
		w.fail("server_wrong_pending", "server", "%s: advertised pending instance %d, store's next instance is %d", what, pend, pendingBefore)
		return
	}
	if uint64(len(resp.certs)) > req.Limit {
		w.fail("server_more_than_requested", "server", "%s: response carries %d certificates", what, len(resp.certs))
		return
	}
	if len(resp.certs) > 256 {
		w.fail("server_more_than_cap", "server", "%s: response carries %d certificates (cap 256)", what, len(resp.certs))
		return
	}
	for i, ct := range resp.certs {
		want := req.FirstInstance + uint64(i)
		if ct.GPBFTInstance != want {
			w.fail("server_out_of_order", "server", "%s: certificate %d of the response is for instance %d", what, i, ct.GPBFTInstance)
			return
		}
		if ct.GPBFTInstance >= pend {
			w.fail("server_beyond_pending", "server", "%s: response contains instance %d although it advertises pending instance %d", what, ct.GPBFTInstance, pend)
			return
		}
		if !bytes.Equal(resp.bytes[i], certgen.CertBytes(h.Certs[ct.GPBFTInstance-first])) {
			w.fail("server_cert_differs", "server", "%s: certificate for instance %d differs from the stored one", what, ct.GPBFTInstance)
			return
		}
	}
	// completeness: everything requested that exists below pending is served (up to the cap)
	if rerr == nil && req.FirstInstance >= first && req.FirstInstance < pend {
		avail := pend - req.FirstInstance
		want := min(avail, req.Limit, 256)
		if uint64(len(resp.certs)) != want {
			w.fail("server_incomplete", "server", "%s: response carries %d certificates, %d are stored and requested", what, len(resp.certs), want)
			return
		}
	}
	// power table
	wantTable := req.IncludePowerTable && pend >= req.FirstInstance
	if len(resp.hdr.PowerTable) > 0 != wantTable {
		if wantTable && (req.FirstInstance < first) {
			// not derivable: the server fails the request instead
		} else {
			w.fail("server_power_table_presence", "server", "%s: power table present=%v, expected %v", what, len(resp.hdr.PowerTable) > 0, wantTable)
			return
		}
	}
	if wantTable && len(resp.hdr.PowerTable) > 0 {
		idx := req.FirstInstance - first
		if idx >= uint64(len(h.Tables)) || !bytes.Equal(certgen.TableBytes(resp.hdr.PowerTable), certgen.TableBytes(h.Tables[idx])) {
			w.fail("server_wrong_power_table", "server", "%s: served power table is not the store's table for instance %d", what, req.FirstInstance)
		}
		w.r.Probe("power_table_served")
	}
	if len(resp.certs) > 0 {
		w.r.Probe("server_served_certs")
	}
}

// ---- (b) the client rejects out-of-sequence responses
type script struct {
	what   string
	resp   []byte
	seqLen int      // number of leading in-sequence, well-formed certificates the client may deliver
	sent   [][]byte // encodings of those certificates
	plan   ReadPlan
	mustEndBy time.Duration
}

func (w *world) buildScript(first uint64, limit uint64, timeout time.Duration) *script {
	c, h := w.c, w.h
	s := &script{plan: DefaultPlan()}
	var buf bytes.Buffer
	hdr := certexchange.ResponseHeader{PendingInstance: first + uint64(c.Intn(len(h.Certs)+2))}
	if c.Chance(200) {
		hdr.PendingInstance = uint64(c.Intn(3)) // mis-advertised
	}
	_ = hdr.MarshalCBOR(&buf)
	idx0 := int(first - h.First)
	n := c.Intn(len(h.Certs) - idx0 + 1)
	seq := make([]*certs.FinalityCertificate, 0, n)
	for i := 0; i < n; i++ {
		seq = append(seq, h.Certs[idx0+i])
	}
	kind := c.Intn(9)
	breakAt := -1
	if len(seq) > 0 {
		breakAt = c.Intn(len(seq))
	}
	switch kind {
	case 0:
		s.what = "honest in-sequence response"
		breakAt = -1
	case 1: // skip one
		s.what = "a certificate skipped"
		if breakAt >= 0 && breakAt < len(seq)-1 {
			seq = append(seq[:breakAt:breakAt], seq[breakAt+1:]...)
		} else {
			breakAt = -1
		}
	case 2: // duplicate
		s.what = "a certificate duplicated"
		if breakAt >= 0 {
			seq = append(seq[:breakAt+1:breakAt+1], append([]*certs.FinalityCertificate{seq[breakAt]}, seq[breakAt+1:]...)...)
			breakAt++
		}
	case 3: // swap
		s.what = "two certificates swapped"
		if breakAt >= 0 && breakAt < len(seq)-1 {
			seq[breakAt], seq[breakAt+1] = seq[breakAt+1], seq[breakAt]
		} else {
			breakAt = -1
		}
	case 4: // starts at the wrong instance
		s.what = "response starting at a later instance"
		if len(seq) > 1 {
			seq = seq[1:]
			breakAt = 0
		} else {
			breakAt = -1
		}
	default:
		breakAt = -1
	}
	for i, ct := range seq {
		b := certgen.CertBytes(ct)
		buf.Write(b)
		if breakAt < 0 || i < breakAt {
			s.sent = append(s.sent, b)
		}
	}
	s.seqLen = len(s.sent)
	s.resp = buf.Bytes()
	switch kind {
	case 5:
		s.what = "response truncated mid-record"
		if len(s.resp) > 1 {
			s.plan.CutAfter = c.Intn(len(s.resp))
			s.plan.CutWithReset = c.Chance(500)
		}
	case 6:
		s.what = "garbage after the header"
		s.resp = append(s.resp[:buf.Len()-0:buf.Len()], c.Bytes(1+c.Intn(64))...)
	case 7:
		s.what = "never-ending trickle"
		s.plan.ChunkSize = 1 + c.Intn(8)
		s.plan.ChunkDelay = timeout / time.Duration(4+c.Intn(20))
	case 8:
		s.what = "stall beyond the request timeout"
		s.plan.StallAfter = c.Intn(len(s.resp) + 1)
	}
	if c.Chance(300) {
		s.plan.FirstByteDelay = time.Duration(c.Intn(int(timeout/time.Millisecond)*2+1)) * time.Millisecond
	}
	if limit < uint64(s.seqLen) {
		s.seqLen = int(limit)
	}
	return s
}

func (w *world) checkClient(timeout time.Duration) {
	c, h := w.c, w.h
	if len(h.Certs) == 0 {
		return
	}
	first := h.First + uint64(c.Intn(len(h.Certs)))
	limit := []uint64{0, 1, 2, 3, 256, certexchange.NoLimit}[c.Intn(6)]
	sc := w.buildScript(first, limit, timeout)
	evil := peer.ID("scripted")
	w.net.SetScripted(evil, func([]byte) ([]byte, error) { return sc.resp, nil })
	w.net.Plan = func(p peer.ID) ReadPlan {
		if p == evil {
			return sc.plan
		}
		return DefaultPlan()
	}
	start := time.Now()
	var got [][]byte
	var gotInst []uint64
	var reqErr error
	panicked := any(nil)
	func() {
		defer func() { panicked = recover() }()
		_, ch, err := w.client.Request(bg, evil, &certexchange.Request{FirstInstance: first, Limit: limit})
		reqErr = err
		if err != nil {
			return
		}
		for ct := range ch {
			got = append(got, certgen.CertBytes(ct))
			gotInst = append(gotInst, ct.GPBFTInstance)
		}
	}()
	elapsed := time.Since(start)
	w.r.Steps++
	w.r.Fault("scripted_response")
	w.r.Tracef("client first=%d limit=%d vs %s: %d certs err=%v elapsed=%v", first, limit, sc.what, len(got), reqErr, elapsed)
	what := fmt.Sprintf("request first=%d limit=%d against a responder sending %s", first, limit, sc.what)
	if panicked != nil {
		w.fail("client_panicked", "client", "%s: panic escaped: %v", what, panicked)
		return
	}
	if elapsed > timeout+time.Second {
		w.fail("client_unbounded", "client", "%s: the request took %v of virtual time (timeout %v)", what, elapsed, timeout)
		return
	}
	if uint64(len(got)) > limit {
		w.fail("client_more_than_limit", "client", "%s: the client delivered %d certificates", what, len(got))
		return
	}
	for i, inst := range gotInst {
		if inst != first+uint64(i) {
			w.fail("client_out_of_sequence", "client", "%s: delivered certificate %d is for instance %d", what, i, inst)
			return
		}
		if i >= len(sc.sent) || !bytes.Equal(got[i], sc.sent[i]) {
			w.fail("client_altered", "client", "%s: delivered certificate %d is not what the responder sent in sequence", what, i)
			return
		}
	}
	if sc.plan.CutAfter < 0 && sc.plan.StallAfter < 0 && sc.plan.ChunkDelay == 0 && sc.plan.FirstByteDelay < timeout && reqErr == nil && len(got) < sc.seqLen {
		w.fail("client_dropped_valid_prefix", "client", "%s: only %d of the %d in-sequence certificates were delivered", what, len(got), sc.seqLen)
	}
	if len(got) > 0 {
		w.r.Probe("client_delivered_prefix")
	}
}

// ---- (c) the poller stores exactly the valid prefix
func (w *world) checkPoller(timeout time.Duration) {
	c, h := w.c, w.h
	if len(h.Certs) == 0 {
		return
	}
	// the polling node holds a prefix of the history; its poller lives across several polls and
	// the store may also advance locally in between (certificates from the node's own consensus)
	if w.poller == nil || c.Chance(300) {
		have := c.Intn(len(h.Certs))
		if have == 0 && h.First != 0 {
			// polling.NewPoller starts from instance 0 on an empty store, which only exists when the
			// store's first instance is 0 (observation recorded in DESIGN.md, outside C16)
			have = 1
		}
		cs, err := certstore.CreateStore(bg, simds.New(), h.First, h.Tables[0])
		if err != nil {
			kernel.Infra("CreateStore: %v", err)
		}
		for i := 0; i < have; i++ {
			if err := cs.Put(bg, h.Certs[i]); err != nil {
				kernel.Infra("Put: %v", err)
			}
		}
		w.pollCS = cs
		w.poller, err = polling.NewPoller(bg, w.client, cs, w.g.Sig)
		if err != nil {
			kernel.Infra("NewPoller: %v", err)
		}
		if c.Chance(300) {
			if _, err := w.poller.CatchUp(bg); err != nil {
				kernel.Infra("CatchUp: %v", err)
			}
		}
	}
	cs, poller := w.pollCS, w.poller
	have := latestCount(cs, h.First)
	if have >= len(h.Certs) {
		w.poller = nil
		return
	}
	// local progress between polls
	if n := c.Intn(4); n > 0 && c.Chance(500) {
		for i := 0; i < n && have < len(h.Certs)-1; i++ {
			if err := cs.Put(bg, h.Certs[have]); err != nil {
				kernel.Infra("local Put: %v", err)
			}
			have++
		}
		w.r.Fault("store_advanced_locally_between_polls")
		if c.Chance(400) {
			if _, err := poller.CatchUp(bg); err != nil {
				kernel.Infra("CatchUp: %v", err)
			}
		}
	}
	// the peer: valid certificates have..have+v-1, then possibly an invalid one, then more
	avail := len(h.Certs) - have
	v := c.Intn(avail + 1)
	kind := c.Intn(8)
	hdr := certexchange.ResponseHeader{PendingInstance: h.First + uint64(have+v)}
	consumedInvalid := false
	trailing := 0
	var bad *certs.FinalityCertificate
	mkBad := func(i int) *certs.FinalityCertificate {
		// i = index in history of the certificate to forge
		cur, next := h.Tables[i], h.Tables[i+1]
		src := h.Certs[i]
		switch kind {
		case 1:
			ct := *src
			ct.Signature = append([]byte(nil), src.Signature...)
			ct.Signature[c.Intn(len(ct.Signature))] ^= 0x40
			return &ct
		case 2:
			w.g.Weak = true
			return w.g.Cert(src.GPBFTInstance, src.ECChain, cur, next)
		case 3:
			ct := *src
			other := w.g.Evolve(w.g.Evolve(next))
			if bytes.Equal(certgen.TableBytes(other), certgen.TableBytes(next)) {
				other = certgen.Canon(append(append(gpbft.PowerEntries(nil), next...), w.g.InitialTable(1)...))
			}
			ct.PowerTableDelta = certgen.Diff(cur, other)
			return &ct
		case 4:
			// correctly signed by a different committee
			g2 := certgen.New(c, true)
			return g2.Cert(src.GPBFTInstance, src.ECChain, g2.InitialTable(3), g2.InitialTable(3))
		case 5:
			ct := *src
			ct.ECChain = &gpbft.ECChain{}
			return &ct
		}
		return nil
	}
	what := "an honest peer"
	if kind >= 1 && kind <= 5 && have+v < len(h.Certs) {
		bad = mkBad(have + v)
		if bad != nil {
			hdr.PendingInstance++
			consumedInvalid = true
			what = [...]string{"", "a certificate with a corrupted aggregate signature", "a certificate signed by less than a strong quorum", "a certificate whose delta does not produce the committed table", "a certificate signed by a foreign committee", "a certificate for the empty chain"}[kind]
			// more (valid) certificates after the bad one must not be stored either
			for i := have + v + 1; i < len(h.Certs) && c.Chance(700); i++ {
				trailing++
				hdr.PendingInstance++
			}
		}
	}
	if kind == 6 || kind == 7 {
		hdr.PendingInstance = h.First + uint64(have+v) + uint64(1+c.Intn(5)) // advertises more than it sends
		what = "a peer that advertises more certificates than it sends"
		if kind == 7 {
			what = "a peer that keeps advertising more certificates than it ever sends"
		}
	}
	// the peer's items, in instance order starting at First+have: v valid certificates, then
	// (optionally) the invalid one and what follows it; each request is served from the offset
	// it asks for, at most 256 items per response
	var items [][]byte
	for i := 0; i < v; i++ {
		items = append(items, certgen.CertBytes(h.Certs[have+i]))
	}
	if bad != nil {
		items = append(items, certgen.CertBytes(bad))
		for i := have + v + 1; i < have+v+1+trailing; i++ {
			items = append(items, certgen.CertBytes(h.Certs[i]))
		}
	}
	firstItem := h.First + uint64(have)
	evil := peer.ID("poll-peer")
	served := 0
	runaway := false
	w.net.SetScripted(evil, func(reqBytes []byte) ([]byte, error) {
		served++
		if served > 64 {
			// the peer would go on like this for ever; break the loop with a stream error so
			// that the check below can report it
			runaway = true
			return nil, ErrReset
		}
		var req certexchange.Request
		if err := req.UnmarshalCBOR(bytes.NewReader(reqBytes)); err != nil {
			kernel.Infra("scripted peer cannot decode request: %v", err)
		}
		var b bytes.Buffer
		h2 := certexchange.ResponseHeader{PendingInstance: hdr.PendingInstance}
		if served > 1 && kind == 6 {
			h2.PendingInstance = firstItem + uint64(len(items)) // truthful from the second request on
		}
		if kind == 7 {
			h2.PendingInstance = max(hdr.PendingInstance, req.FirstInstance+1) // always one more than it will ever send
		}
		_ = h2.MarshalCBOR(&b)
		if req.FirstInstance >= firstItem {
			off := req.FirstInstance - firstItem
			for n := uint64(0); off+n < uint64(len(items)) && n < 256 && n < req.Limit; n++ {
				b.Write(items[off+n])
			}
		}
		return b.Bytes(), nil
	})
	w.net.Plan = nil
	beforeNext := poller.NextInstance
	res, perr := poller.Poll(bg, evil)
	w.r.Steps++
	w.r.Fault("poll_scripted_peer")
	w.r.Tracef("poll have=%d valid=%d kind=%d (%s) -> %+v err=%v", have, v, kind, what, res, perr)
	ctx := fmt.Sprintf("poller holding %d certificates polls %s sending %d valid certificates first", have, what, v)
	if perr != nil {
		w.fail("poll_internal_error", "poller", "%s: Poll returned an internal error: %v", ctx, perr)
		return
	}
	if runaway {
		w.fail("poller_unbounded_requests", "poller", "%s: Poll issued more than 64 requests to the same peer without receiving anything new and without returning", ctx)
		return
	}
	latest := cs.Latest()
	gotLatest := int64(-1)
	if latest != nil {
		gotLatest = int64(latest.GPBFTInstance - h.First)
	}
	wantLatest := int64(have+v) - 1
	if gotLatest != wantLatest {
		w.fail("poller_wrong_advance", "poller", "%s: store now holds %d certificates, expected %d (the valid prefix)", ctx, gotLatest+1, wantLatest+1)
		return
	}
	for i := 0; i <= int(wantLatest); i++ {
		ct, err := cs.Get(bg, h.First+uint64(i))
		if err != nil || !bytes.Equal(certgen.CertBytes(ct), certgen.CertBytes(h.Certs[i])) {
			w.fail("poller_stored_wrong_cert", "poller", "%s: stored certificate %d differs from the honest chain", ctx, h.First+uint64(i))
			return
		}
	}
	if poller.NextInstance != h.First+uint64(have+v) {
		w.fail("poller_next_instance", "poller", "%s: NextInstance is %d, store's next instance is %d (was %d)", ctx, poller.NextInstance, h.First+uint64(have+v), beforeNext)
		return
	}
	if !bytes.Equal(certgen.TableBytes(poller.PowerTable), certgen.TableBytes(h.Tables[have+v])) {
		w.fail("poller_power_table", "poller", "%s: poller's power table is not the table for instance %d", ctx, poller.NextInstance)
		return
	}
	if (res.Status == polling.PollIllegal) != consumedInvalid {
		w.fail("poller_classification", "poller", "%s: status %v, invalid certificate consumed: %v", ctx, res.Status, consumedInvalid)
		return
	}
	if res.NewCertificates != uint64(v) {
		w.fail("poller_new_count", "poller", "%s: reported %d new certificates, stored %d", ctx, res.NewCertificates, v)
	}
	if consumedInvalid {
		w.r.Probe("poller_rejected_invalid")
	}
}

func runC16(prop, tier string, c *kernel.Chooser, r *kernel.Recorder) *kernel.Violation {
	e := &env{c: c, r: r, prop: prop}
	timeout := time.Duration(1+c.Intn(10)) * time.Second
	n := 1 + c.Intn(8)
	if tier == "thorough" || c.Chance(20) {
		n = 1 + c.Intn(40)
		if c.Chance(50) {
			n = 258 + c.Intn(10)
		}
	}
	stored := c.Intn(n + 1)
	w := newWorld(e, n, stored, timeout)
	defer w.stop()
	r.Sample["config"] = fmt.Sprintf("certs=%d stored=%d first=%d timeout=%v", n, stored, w.h.First, timeout)
	r.Tracef("config %s", r.Sample["config"])
	rounds := 4 + c.Intn(8)
	for i := 0; i < rounds && e.viol == nil; i++ {
		switch c.Pick([]int{5, 3, 3}) {
		case 0:
			w.checkServer()
		case 1:
			w.checkClient(timeout)
		case 2:
			w.checkPoller(timeout)
		}
	}
	r.SimTime = 0
	return e.viol
}
