package cxsim

import (
	"os"
	"strings"
	"testing"

	"github.com/filecoin-project/go-f3/zz_verif/kernel"
)

// TestWorker is the worker entry point: its arguments come from VERIF_ARGS (unit separator
// delimited) because the test binary's own flag set must not see them.
func TestWorker(t *testing.T) {
	raw := os.Getenv("VERIF_ARGS")
	if raw == "" {
		t.Skip("VERIF_ARGS not set")
	}
	T = t
	code := kernel.MainArgs("cxsim", Run, strings.Split(raw, "\x1f"))
	if code != 0 {
		os.Exit(code)
	}
}
