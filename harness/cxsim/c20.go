package cxsim

import (
	"errors"
	"fmt"
	"reflect"
	"testing/synctest"
	"time"
	"unsafe"

	"github.com/filecoin-project/go-f3/certexchange"
	"github.com/filecoin-project/go-f3/certexchange/polling"
	"github.com/filecoin-project/go-f3/certstore"
	"github.com/filecoin-project/go-f3/internal/clock"
	"github.com/filecoin-project/go-f3/zz_verif/certgen"
	"github.com/filecoin-project/go-f3/zz_verif/kernel"
	"github.com/filecoin-project/go-f3/zz_verif/simds"
	"github.com/libp2p/go-libp2p/core/peer"
)

// C20: polling cadence adapts to certificate production.

type servingPeer struct {
	id     peer.ID
	ds     *simds.DS
	cs     *certstore.Store
	server *certexchange.Server
	lag    int // how many certificates it is behind the producer
}

type cadWorld struct {
	*env
	g     *certgen.Gen
	h     *certgen.History
	net   *Net
	peers []*servingPeer
	host  *Host
	subCS *certstore.Store
	sub   *polling.Subscriber
}

func newCadWorld(e *env, ncerts, npeers int, timeout time.Duration) *cadWorld {
	w := &cadWorld{env: e, g: certgen.New(e.c, true), net: NewNet()}
	first := uint64(0) // an empty polling store must start at instance 0 (see c16.go)
	w.h = w.g.NewHistory(first, ncerts, 1+e.c.Intn(4), 1)
	var ids []peer.ID
	for i := 0; i < npeers; i++ {
		p := &servingPeer{id: peer.ID(fmt.Sprintf("peer-%02d", i)), ds: simds.New()}
		var err error
		p.cs, err = certstore.CreateStore(bg, p.ds, first, w.h.Tables[0])
		if err != nil {
			kernel.Infra("CreateStore: %v", err)
		}
		p.server = &certexchange.Server{RequestTimeout: timeout, NetworkName: nn, Host: NewHost(p.id, w.net), Store: p.cs}
		if err := p.server.Start(bg); err != nil {
			kernel.Infra("server start: %v", err)
		}
		w.peers = append(w.peers, p)
		ids = append(ids, p.id)
	}
	w.host = NewHost(peer.ID("subscriber"), w.net)
	w.host.SetPeers(ids, certexchange.FetchProtocolName(nn))
	var err error
	w.subCS, err = certstore.CreateStore(bg, simds.New(), first, w.h.Tables[0])
	if err != nil {
		kernel.Infra("CreateStore: %v", err)
	}
	return w
}

func (w *cadWorld) stop() {
	for _, p := range w.peers {
		_ = p.server.Stop(bg)
	}
}

// produce makes certificate index i available at every peer that is not lagging behind it.
func (w *cadWorld) produce(upTo int) {
	for _, p := range w.peers {
		have := 0
		if l := p.cs.Latest(); l != nil {
			have = int(l.GPBFTInstance-w.h.First) + 1
		}
		for i := have; i < upTo-p.lag; i++ {
			if err := p.cs.Put(bg, w.h.Certs[i]); err != nil {
				kernel.Infra("producer put: %v", err)
			}
		}
	}
}

func latestCount(cs *certstore.Store, first uint64) int {
	if l := cs.Latest(); l != nil {
		return int(l.GPBFTInstance-first) + 1
	}
	return 0
}

// ---- (a) single polling rounds: reported progress = store advance
func runC20a(e *env, tier string) {
	c := e.c
	n := 4 + c.Intn(20)
	npeers := 1 + c.Intn(4)
	w := newCadWorld(e, n, npeers, 5*time.Second)
	defer w.stop()
	for _, p := range w.peers {
		if c.Chance(300) {
			p.lag = 1 + c.Intn(3)
		}
	}
	failing := map[peer.ID]bool{}
	w.net.DialFail = func(p peer.ID) error {
		if failing[p] {
			w.r.Fault("peer_dial_failure")
			return errors.New("injected dial failure")
		}
		return nil
	}
	w.sub = &polling.Subscriber{Client: certexchange.Client{Host: w.host, NetworkName: nn, RequestTimeout: 5 * time.Second}, Store: w.subCS, SignatureVerifier: w.g.Sig,
		InitialPollInterval: 10 * time.Second, MaximumPollInterval: time.Minute, MinimumPollInterval: time.Second}
	if err := polling.VerifPrepare(bg, w.sub); err != nil {
		kernel.Infra("prepare: %v", err)
	}
	for _, p := range w.peers {
		polling.VerifPeerSeen(w.sub, p.id)
	}
	e.r.Sample["config"] = fmt.Sprintf("single rounds: certs=%d peers=%d", n, npeers)
	produced := 0
	localThisRound := 0
	rounds := 3 + c.Intn(10)
	w.net.OnRequest = func(p peer.ID, at time.Time) {
		// a certificate from the node's own consensus may land while a request is in flight
		if c.Chance(120) {
			have := latestCount(w.subCS, w.h.First)
			if have < n {
				if err := w.subCS.Put(bg, w.h.Certs[have]); err == nil {
					e.r.Fault("local_certificate_during_poll")
					localThisRound++
				}
			}
		}
	}
	for i := 0; i < rounds && e.viol == nil; i++ {
		localThisRound = 0
		// production pattern: nothing, one, or a burst
		switch c.Pick([]int{3, 4, 3}) {
		case 1:
			produced = min(n, produced+1)
		case 2:
			produced = min(n, produced+2+c.Intn(5))
		}
		w.produce(produced)
		for _, p := range w.peers {
			failing[p.id] = c.Chance(150)
		}
		before := latestCount(w.subCS, w.h.First)
		nextBefore := polling.VerifNextInstance(w.sub)
		progress, newCert, err := polling.VerifRound(bg, w.sub)
		after := latestCount(w.subCS, w.h.First)
		nextAfter := polling.VerifNextInstance(w.sub)
		e.r.Steps++
		e.r.Tracef("round %d produced=%d store %d->%d next %d->%d progress=%d new=%v err=%v", i, produced, before, after, nextBefore, nextAfter, progress, newCert, err)
		if err != nil {
			e.fail("poll_round_failed", "poll", "polling round failed: %v", err)
			return
		}
		adv := uint64(after - before)
		// The round's progress is what the poller's position gained; the position may trail the
		// store only by certificates that landed locally while the round's requests were in flight
		// (they are accounted by the next catch-up).
		lag := uint64(after) + w.h.First - nextAfter
		if nextAfter < nextBefore || nextAfter > uint64(after)+w.h.First || lag > uint64(localThisRound) {
			e.fail("poller_position_inconsistent", "progress", "after the round the poller's next instance is %d, the store holds instances up to %d (%d certificates landed locally during the round)", nextAfter, int64(after)+int64(w.h.First)-1, localThisRound)
			return
		}
		if progress != nextAfter-nextBefore {
			e.fail("progress_not_store_advance", "progress", "polling round reported progress %d; the poller advanced from instance %d to %d (store advanced by %d instances)", progress, nextBefore, nextAfter, adv)
			return
		}
		if newCert && adv == 0 {
			e.fail("new_certificate_flag", "progress", "polling round reported a new certificate although the store did not advance")
			return
		}
		if adv > 1 {
			e.r.Probe("multi_certificate_round")
		}
		if adv == 0 {
			e.r.Probe("empty_round")
		}
	}
}

// nextMockTimer reads the deadline of the single pending timer of a go-clock Mock (the
// subscriber's poll timer) through reflection: the field is unexported and the mock offers no
// accessor. ok=false when no timer is pending.
func nextMockTimer(m *clock.Mock) (time.Time, bool) {
	f := reflect.ValueOf(m).Elem().FieldByName("timers")
	f = reflect.NewAt(f.Type(), unsafe.Pointer(f.UnsafeAddr())).Elem()
	var best time.Time
	found := false
	for i := 0; i < f.Len(); i++ {
		e := f.Index(i).Elem() // concrete *internalTimer / *internalTicker
		next := e.MethodByName("Next").Call(nil)[0].Interface().(time.Time)
		if !found || next.Before(best) {
			best, found = next, true
		}
	}
	return best, found
}

// ---- (b) end-to-end cadence, stepped on a mock clock inside the bubble: the harness waits for
// quiescence, reads the deadline the subscriber programmed, applies production and local-store
// events that fall before it, fires the timer, and judges the next programmed wait.
// settle lets every goroutine of the bubble run until it is blocked on something other than a
// (virtual) sleep: the mock clock's Add/Set yield with a 1 ms sleep, during which synctest.Wait
// alone would already report quiescence.
func settle() {
	time.Sleep(10 * time.Second) // bubble time only; the mock clock is not touched
	synctest.Wait()
}

func runC20b(e *env, tier string) {
	c, r := e.c, e.r
	minI := time.Duration(1+c.Intn(5)) * time.Second
	maxI := minI * time.Duration(20+c.Intn(100))
	initI := minI * time.Duration(2+c.Intn(15))
	T := minI*2 + time.Duration(c.Intn(int((maxI/2-minI*2)/time.Millisecond)+1))*time.Millisecond
	pattern := c.Pick([]int{5, 2, 2}) // steady, bursty, stall-and-resume
	iters := 90
	if tier == "thorough" {
		iters = 220
	}
	ncerts := 420
	npeers := 1 + c.Intn(3)
	latency := time.Duration(0)
	if c.Chance(500) {
		latency = minI / time.Duration(4+c.Intn(12))
	}
	localPm := 0 // chance that a certificate is produced locally (own consensus) instead of at the peers
	if c.Chance(500) {
		localPm = []int{50, 200, 500}[c.Intn(3)]
	}
	w := newCadWorld(e, ncerts, npeers, minI)
	defer w.stop()
	if npeers > 1 && c.Chance(400) {
		w.peers[npeers-1].lag = 1 + c.Intn(2)
	}
	// the subscriber may resume on a non-empty store
	resume := 0
	if c.Chance(400) {
		resume = 1 + c.Intn(5)
		for i := 0; i < resume; i++ {
			if err := w.subCS.Put(bg, w.h.Certs[i]); err != nil {
				kernel.Infra("resume put: %v", err)
			}
		}
		w.produce(resume)
	}
	ctx, mock := clock.WithMockClock(bg)
	t0 := time.Date(2024, 1, 1, 0, 0, 0, 0, time.UTC)
	mock.Set(t0)
	w.net.Plan = func(peer.ID) ReadPlan {
		p := DefaultPlan()
		p.FirstByteDelay = latency
		return p
	}
	// Request latency in stepped mode: the requesting goroutine blocks until the harness (the only
	// goroutine that ever moves the mock clock) has advanced the clock by the latency.
	type waiter struct {
		at time.Time
		ch chan struct{}
	}
	var pending []*waiter
	w.net.Sleep = func(d time.Duration) {
		wt := &waiter{at: mock.Now().Add(d), ch: make(chan struct{})}
		pending = append(pending, wt)
		<-wt.ch
	}
	drain := func() {
		for len(pending) > 0 {
			wt := pending[0]
			pending = pending[1:]
			mock.Set(wt.at)
			close(wt.ch)
			settle()
		}
	}
	r.Sample["config"] = fmt.Sprintf("cadence: min=%v init=%v max=%v T=%v pattern=%d peers=%d latency=%v local=%d/1000 resume=%d", minI, initI, maxI, T, pattern, npeers, latency, localPm, resume)
	r.Tracef("config %s", r.Sample["config"])
	// pre-drawn production schedule: (time, total produced, local?)
	type prod struct {
		at    time.Duration
		n     int
		local bool
	}
	var sched []prod
	tt := time.Duration(0)
	total := resume
	for total < ncerts-8 {
		switch pattern {
		case 0:
			tt += T
			total++
		case 1:
			tt += T * time.Duration(1+c.Intn(4))
			total += 1 + c.Intn(5)
		case 2:
			if c.Chance(100) {
				tt += T * time.Duration(5+c.Intn(20))
			} else {
				tt += T
			}
			total++
		}
		sched = append(sched, prod{tt, total, c.Chance(localPm)})
	}
	// local production that lands while a request is in flight
	midPoll := c.Chance(400)
	nreq := 0
	localDuringPoll := 0
	produced := resume
	w.net.OnRequest = func(p peer.ID, at time.Time) {
		nreq++
		if midPoll && c.Chance(150) {
			have := latestCount(w.subCS, w.h.First)
			if have < produced+1 && have < ncerts-1 {
				if err := w.subCS.Put(bg, w.h.Certs[have]); err == nil {
					localDuringPoll++
					r.Fault("local_certificate_during_poll")
				}
			}
		}
	}
	w.sub = &polling.Subscriber{Client: certexchange.Client{Host: w.host, NetworkName: nn, RequestTimeout: minI}, Store: w.subCS, SignatureVerifier: w.g.Sig,
		InitialPollInterval: initI, MaximumPollInterval: maxI, MinimumPollInterval: minI}
	if err := w.sub.Start(ctx); err != nil {
		kernel.Infra("subscriber start: %v", err)
	}
	defer func() { _ = w.sub.Stop(bg) }()
	shadow := polling.VerifNewPredictor(minI, initI, maxI)
	si := 0
	settle()
	if nx, want := polling.VerifNextInstance(w.sub), w.h.First+uint64(latestCount(w.subCS, w.h.First)); nx != want {
		e.fail("poller_position_inconsistent", "start", "after start on a store holding instances up to %d the poller's next instance is %d", int64(want)-1, nx)
		return
	}
	var intervals []time.Duration
	var lastD time.Time
	for it := 0; it < iters && e.viol == nil && si < len(sched); it++ {
		settle()
		D, ok := nextMockTimer(mock)
		if !ok {
			e.fail("no_poll_scheduled", "cadence", "after iteration %d the subscriber has no poll timer pending", it)
			return
		}
		if it == 0 {
			if d := D.Sub(t0); d != initI {
				e.fail("first_poll_time", "cadence", "first poll scheduled after %v, the initial interval is %v", d, initI)
				return
			}
		} else {
			intervals = append(intervals, D.Sub(lastD))
		}
		// production events up to the deadline
		for si < len(sched) && !t0.Add(sched[si].at).After(D) {
			ev := sched[si]
			si++
			if at := t0.Add(ev.at); at.After(mock.Now()) && at.Before(D) {
				mock.Set(at)
			}
			produced = ev.n
			if ev.local {
				// the node's own consensus produced it: it reaches the local store first
				for have := latestCount(w.subCS, w.h.First); have < ev.n && have < ncerts; have++ {
					if err := w.subCS.Put(bg, w.h.Certs[have]); err != nil {
						kernel.Infra("local put: %v", err)
					}
				}
				r.Fault("local_certificate_between_polls")
			}
			w.produce(ev.n)
		}
		nreq, localDuringPoll = 0, 0
		nextBefore := polling.VerifNextInstance(w.sub)
		mock.Set(D) // fires the poll timer
		settle()
		drain() // serve the latencies of the requests made by this iteration, one at a time
		now2 := mock.Now()
		D2, ok := nextMockTimer(mock)
		if !ok {
			e.fail("no_poll_scheduled", "cadence", "after the poll at +%v the subscriber has no poll timer pending", D.Sub(t0))
			return
		}
		storeNow := latestCount(w.subCS, w.h.First)
		nextAfter := polling.VerifNextInstance(w.sub)
		// the poller's position may trail the store only by certificates that landed locally while
		// this iteration's requests were in flight
		if lag := w.h.First + uint64(storeNow) - nextAfter; nextAfter < nextBefore || nextAfter > w.h.First+uint64(storeNow) || lag > uint64(localDuringPoll) {
			e.fail("poller_position_inconsistent", "progress", "after the poll at +%v the poller's next instance is %d, the store holds instances up to %d (%d certificates landed locally during the poll)", D.Sub(t0), nextAfter, int64(w.h.First)+int64(storeNow)-1, localDuringPoll)
			return
		}
		progress := nextAfter - nextBefore
		I := shadow.Update(progress)
		reqTime := now2.Sub(D)
		wait := D2.Sub(now2)
		base := max(D.Add(I).Sub(now2), 0)
		hi := base + min(reqTime, base/2)
		r.Steps++
		r.Tracef("iter %d at +%v: requests=%d reqTime=%v progress=%d (local during poll %d) predicted=%v -> wait %v (allowed %v..%v)", it, D.Sub(t0), nreq, reqTime, progress, localDuringPoll, I, wait, base, hi)
		if wait < base {
			e.fail("poll_too_early", "cadence", "after the poll at +%v (store advanced by %d, request time %v) the next poll is programmed in %v; the predicted interval %v allows no less than %v (min %v, max %v)",
				D.Sub(t0), progress, reqTime, wait, I, base, minI, maxI)
		} else if wait > hi {
			e.fail("poll_too_late", "cadence", "after the poll at +%v (store advanced by %d, %d requests taking %v) the next poll is programmed in %v; predicted interval %v: at most %v is allowed",
				D.Sub(t0), progress, nreq, reqTime, wait, I, hi)
		}
		if nreq == 0 {
			r.Probe("iteration_without_requests")
		}
		if progress > 1 {
			r.Probe("multi_certificate_poll")
		}
		if progress == 0 {
			r.Probe("empty_poll")
		}
		lastD = D
	}
	r.SimTime = mock.Now().Sub(t0)
	// steady production, all of it visible to the peers: the cadence settles near T
	if e.viol == nil && pattern == 0 && localPm == 0 && !midPoll && len(intervals) >= 70 {
		var sum time.Duration
		tail := intervals[len(intervals)-20:]
		for _, d := range tail {
			sum += d
		}
		mean := sum / time.Duration(len(tail))
		r.Probe("steady_state_measured")
		if mean < T/2 || mean > T*3/2 {
			e.fail("cadence_not_adapted", "cadence", "steady production every %v: mean of the last %d poll intervals is %v (min %v, max %v)", T, len(tail), mean, minI, maxI)
		}
	}
}

func runC20(prop, tier string, c *kernel.Chooser, r *kernel.Recorder) *kernel.Violation {
	e := &env{c: c, r: r, prop: prop}
	if c.Chance(400) {
		runC20a(e, tier)
	} else {
		runC20b(e, tier)
	}
	return e.viol
}
