package cxsim

import (
	"errors"
	"fmt"
	"time"

	"github.com/filecoin-project/go-f3/certexchange"
	"github.com/filecoin-project/go-f3/certexchange/polling"
	"github.com/filecoin-project/go-f3/certstore"
	"github.com/filecoin-project/go-f3/zz_verif/certgen"
	"github.com/filecoin-project/go-f3/zz_verif/kernel"
	"github.com/filecoin-project/go-f3/zz_verif/simds"
	"github.com/libp2p/go-libp2p/core/peer"
)

// C20: polling cadence adapts to certificate production.

type servingPeer struct {
	id     peer.ID
	ds     *simds.DS
	cs     *certstore.Store
	server *certexchange.Server
	lag    int // how many certificates it is behind the producer
}

type cadWorld struct {
	*env
	g     *certgen.Gen
	h     *certgen.History
	net   *Net
	peers []*servingPeer
	host  *Host
	subCS *certstore.Store
	sub   *polling.Subscriber
}

func newCadWorld(e *env, ncerts, npeers int, timeout time.Duration) *cadWorld {
	w := &cadWorld{env: e, g: certgen.New(e.c, true), net: NewNet()}
	first := uint64(0) // an empty polling store must start at instance 0 (see c16.go)
	w.h = w.g.NewHistory(first, ncerts, 1+e.c.Intn(4), 1)
	var ids []peer.ID
	for i := 0; i < npeers; i++ {
		p := &servingPeer{id: peer.ID(fmt.Sprintf("peer-%02d", i)), ds: simds.New()}
		var err error
		p.cs, err = certstore.CreateStore(bg, p.ds, first, w.h.Tables[0])
		if err != nil {
			kernel.Infra("CreateStore: %v", err)
		}
		p.server = &certexchange.Server{RequestTimeout: timeout, NetworkName: nn, Host: NewHost(p.id, w.net), Store: p.cs}
		if err := p.server.Start(bg); err != nil {
			kernel.Infra("server start: %v", err)
		}
		w.peers = append(w.peers, p)
		ids = append(ids, p.id)
	}
	w.host = NewHost(peer.ID("subscriber"), w.net)
	w.host.SetPeers(ids, certexchange.FetchProtocolName(nn))
	var err error
	w.subCS, err = certstore.CreateStore(bg, simds.New(), first, w.h.Tables[0])
	if err != nil {
		kernel.Infra("CreateStore: %v", err)
	}
	return w
}

func (w *cadWorld) stop() {
	for _, p := range w.peers {
		_ = p.server.Stop(bg)
	}
}

// produce makes certificate index i available at every peer that is not lagging behind it.
func (w *cadWorld) produce(upTo int) {
	for _, p := range w.peers {
		have := 0
		if l := p.cs.Latest(); l != nil {
			have = int(l.GPBFTInstance-w.h.First) + 1
		}
		for i := have; i < upTo-p.lag; i++ {
			if err := p.cs.Put(bg, w.h.Certs[i]); err != nil {
				kernel.Infra("producer put: %v", err)
			}
		}
	}
}

func latestCount(cs *certstore.Store, first uint64) int {
	if l := cs.Latest(); l != nil {
		return int(l.GPBFTInstance-first) + 1
	}
	return 0
}

// ---- (a) single polling rounds: reported progress = store advance
func runC20a(e *env, tier string) {
	c := e.c
	n := 4 + c.Intn(20)
	npeers := 1 + c.Intn(4)
	w := newCadWorld(e, n, npeers, 5*time.Second)
	defer w.stop()
	for _, p := range w.peers {
		if c.Chance(300) {
			p.lag = 1 + c.Intn(3)
		}
	}
	failing := map[peer.ID]bool{}
	w.net.DialFail = func(p peer.ID) error {
		if failing[p] {
			w.r.Fault("peer_dial_failure")
			return errors.New("injected dial failure")
		}
		return nil
	}
	w.sub = &polling.Subscriber{Client: certexchange.Client{Host: w.host, NetworkName: nn, RequestTimeout: 5 * time.Second}, Store: w.subCS, SignatureVerifier: w.g.Sig,
		InitialPollInterval: 10 * time.Second, MaximumPollInterval: time.Minute, MinimumPollInterval: time.Second}
	if err := polling.VerifPrepare(bg, w.sub); err != nil {
		kernel.Infra("prepare: %v", err)
	}
	for _, p := range w.peers {
		polling.VerifPeerSeen(w.sub, p.id)
	}
	e.r.Sample["config"] = fmt.Sprintf("single rounds: certs=%d peers=%d", n, npeers)
	produced := 0
	rounds := 3 + c.Intn(10)
	for i := 0; i < rounds && e.viol == nil; i++ {
		// production pattern: nothing, one, or a burst
		switch c.Pick([]int{3, 4, 3}) {
		case 1:
			produced = min(n, produced+1)
		case 2:
			produced = min(n, produced+2+c.Intn(5))
		}
		w.produce(produced)
		for _, p := range w.peers {
			failing[p.id] = c.Chance(150)
		}
		before := latestCount(w.subCS, w.h.First)
		nextBefore := polling.VerifNextInstance(w.sub)
		progress, newCert, err := polling.VerifPoll(bg, w.sub)
		after := latestCount(w.subCS, w.h.First)
		nextAfter := polling.VerifNextInstance(w.sub)
		e.r.Steps++
		e.r.Tracef("round %d produced=%d store %d->%d next %d->%d progress=%d new=%v err=%v", i, produced, before, after, nextBefore, nextAfter, progress, newCert, err)
		if err != nil {
			e.fail("poll_round_failed", "poll", "polling round failed: %v", err)
			return
		}
		adv := uint64(after - before)
		if progress != adv || nextAfter-nextBefore != adv {
			e.fail("progress_not_store_advance", "progress", "polling round reported progress %d; the store advanced by %d instances (next instance %d -> %d)", progress, adv, nextBefore, nextAfter)
			return
		}
		if newCert != (adv > 0) {
			e.fail("new_certificate_flag", "progress", "polling round reported new=%v although the store advanced by %d", newCert, adv)
			return
		}
		if adv > 1 {
			e.r.Probe("multi_certificate_round")
		}
		if adv == 0 {
			e.r.Probe("empty_round")
		}
	}
}

// ---- (b) end-to-end cadence in virtual time
func runC20b(e *env, tier string) {
	c, r := e.c, e.r
	minI := time.Duration(1+c.Intn(5)) * time.Second
	maxI := minI * time.Duration(20+c.Intn(100))
	initI := minI * time.Duration(2+c.Intn(15))
	// production interval strictly inside (min, max)
	T := minI*2 + time.Duration(c.Intn(int((maxI/2-minI*2)/time.Millisecond)+1))*time.Millisecond
	pattern := c.Pick([]int{5, 2, 2}) // steady, bursty, stall-and-resume
	polls := 90
	if tier == "thorough" {
		polls = 200
	}
	ncerts := 400
	latency := time.Duration(0)
	npeers := 1 + c.Intn(3)
	if c.Chance(400) {
		npeers = 1
		latency = minI / time.Duration(8+c.Intn(8))
	}
	w := newCadWorld(e, ncerts, npeers, minI)
	defer w.stop()
	if npeers > 1 && c.Chance(400) {
		w.peers[npeers-1].lag = 1 + c.Intn(2)
	}
	w.net.Plan = func(peer.ID) ReadPlan {
		p := DefaultPlan()
		p.FirstByteDelay = latency
		return p
	}
	r.Sample["config"] = fmt.Sprintf("cadence: min=%v init=%v max=%v T=%v pattern=%d peers=%d latency=%v", minI, initI, maxI, T, pattern, npeers, latency)
	r.Tracef("config %s", r.Sample["config"])
	// pre-drawn production schedule
	type prod struct {
		at time.Duration
		n  int
	}
	var sched []prod
	t := time.Duration(0)
	total := 0
	for total < ncerts-8 {
		switch pattern {
		case 0:
			t += T
			total++
		case 1:
			t += T * time.Duration(1+c.Intn(4))
			total += 1 + c.Intn(5)
		case 2:
			if c.Chance(100) {
				t += T * time.Duration(5+c.Intn(20)) // stall
			} else {
				t += T
			}
			total++
		}
		sched = append(sched, prod{t, total})
	}
	// observations
	type reqObs struct {
		at     time.Time
		stored int
	}
	var reqs []reqObs
	start := time.Now()
	w.net.OnRequest = func(p peer.ID, at time.Time) {
		reqs = append(reqs, reqObs{at, latestCount(w.subCS, w.h.First)})
	}
	w.sub = &polling.Subscriber{Client: certexchange.Client{Host: w.host, NetworkName: nn, RequestTimeout: minI}, Store: w.subCS, SignatureVerifier: w.g.Sig,
		InitialPollInterval: initI, MaximumPollInterval: maxI, MinimumPollInterval: minI}
	if err := w.sub.Start(bg); err != nil {
		kernel.Infra("subscriber start: %v", err)
	}
	// producer
	done := make(chan struct{})
	go func() {
		defer close(done)
		for _, p := range sched {
			d := time.Until(start.Add(p.at))
			if d > 0 {
				time.Sleep(d)
			}
			w.produce(p.n)
		}
	}()
	// run until enough polling rounds were observed or production ended
	deadline := start.Add(sched[len(sched)-1].at)
	for time.Now().Before(deadline) {
		time.Sleep(maxI)
		if len(reqs) > polls*4*npeers {
			break
		}
	}
	_ = w.sub.Stop(bg)
	<-done
	r.SimTime = time.Since(start)

	// ---- group requests into polling rounds
	type round struct {
		at      time.Time
		nreq    int
		stored  int
		lastReq time.Time
	}
	var rounds []round
	for _, q := range reqs {
		if n := len(rounds); n > 0 && q.at.Sub(rounds[n-1].lastReq) <= latency+time.Millisecond {
			rounds[n-1].nreq++
			rounds[n-1].lastReq = q.at
			continue
		}
		rounds = append(rounds, round{at: q.at, nreq: 1, stored: q.stored, lastReq: q.at})
	}
	if len(rounds) < 5 {
		kernel.Infra("only %d polling rounds observed", len(rounds))
	}
	if d := rounds[0].at.Sub(start); d != initI {
		e.fail("first_poll_time", "cadence", "first poll after %v, initial interval is %v", d, initI)
		return
	}
	shadow := polling.VerifNewPredictor(minI, initI, maxI)
	var intervals []time.Duration
	for k := 0; k+1 < len(rounds) && e.viol == nil; k++ {
		progress := uint64(rounds[k+1].stored - rounds[k].stored)
		I := shadow.Update(progress)
		req := time.Duration(rounds[k].nreq) * latency
		got := rounds[k+1].at.Sub(rounds[k].at)
		if rounds[k+1].at.Before(deadline) {
			intervals = append(intervals, got) // steady-state statistics only while production lasts
		}
		lo := I
		hi := max(I, req) + min(req, I/2)
		r.Steps++
		r.Tracef("round %d at +%v progress=%d predicted=%v req=%v next after %v", k, rounds[k].at.Sub(start), progress, I, req, got)
		if got < lo {
			e.fail("poll_too_early", "cadence", "poll %d came %v after the previous one; the predicted interval for a progress of %d instances is %v (min %v, max %v)", k+1, got, progress, I, minI, maxI)
		} else if got > hi {
			e.fail("poll_too_late", "cadence", "poll %d came %v after the previous one; predicted interval %v, request time %v: at most %v allowed", k+1, got, I, req, hi)
		}
		if progress > 1 {
			r.Probe("multi_certificate_poll")
		}
		if progress == 0 {
			r.Probe("empty_poll")
		}
	}
	// ---- steady production: the cadence settles near T
	if e.viol == nil && pattern == 0 && len(intervals) >= 70 {
		var sum time.Duration
		tail := intervals[len(intervals)-20:]
		for _, d := range tail {
			sum += d
		}
		mean := sum / time.Duration(len(tail))
		r.Probe("steady_state_measured")
		if mean < T/2 || mean > T*3/2 {
			e.fail("cadence_not_adapted", "cadence", "steady production every %v: mean of the last %d poll intervals is %v (min %v, max %v)", T, len(tail), mean, minI, maxI)
		}
	}
}

func runC20(prop, tier string, c *kernel.Chooser, r *kernel.Recorder) *kernel.Violation {
	e := &env{c: c, r: r, prop: prop}
	if c.Chance(400) {
		runC20a(e, tier)
	} else {
		runC20b(e, tier)
	}
	return e.viol
}
