package cxsim

import (
	"testing"
	"testing/synctest"

	"github.com/filecoin-project/go-f3/zz_verif/kernel"
)

// T is the testing.T of the worker test; every run executes inside its own synctest bubble.
var T *testing.T

// Run executes one run of the given property's check inside a fresh bubble (virtual time).
func Run(prop, tier string, c *kernel.Chooser, r *kernel.Recorder) (v *kernel.Violation) {
	var infra any
	synctest.Test(T, func(t *testing.T) {
		defer func() {
			if p := recover(); p != nil {
				infra = p
			}
		}()
		switch prop {
		case "C16":
			v = runC16(prop, tier, c, r)
		case "C20":
			v = runC20(prop, tier, c, r)
		default:
			kernel.Infra("cxsim: unknown property %s", prop)
		}
	})
	if infra != nil {
		panic(infra)
	}
	return v
}
