package kernel

import (
	"crypto/sha256"
	"encoding/hex"
	"fmt"
	"hash"
	"sort"
	"time"
)

// Violation is a property violation found by an oracle.
type Violation struct {
	Prop   string `json:"property"`
	Kind   string `json:"kind"`   // violation class; shrinking keeps (Prop, Kind) fixed
	Key    string `json:"key"`    // normalised identity used by the known-findings file
	Detail string `json:"detail"` // human readable
}

func (v *Violation) String() string {
	return fmt.Sprintf("%s/%s [%s]: %s", v.Prop, v.Kind, v.Key, v.Detail)
}

// Recorder collects the abstract event log of one run, its digest, fault and probe counters.
// Nothing in here draws from the chooser or reads a real clock.
type Recorder struct {
	h       hash.Hash
	ring    []string
	ringPos int
	ringCap int
	lines   int
	Faults  map[string]int
	Probes  map[string]int
	Known   map[string]int
	SimTime time.Duration
	Steps   int
	// KeepAll keeps the whole trace (replay mode).
	KeepAll bool
	all     []string
	// Sample is a short human-readable description of the run (config + outcome).
	Sample map[string]any
	// Sig is an optional secondary digest (e.g. protocol path signature).
	sig hash.Hash
}

func NewRecorder(ringCap int) *Recorder {
	return &Recorder{h: sha256.New(), ringCap: ringCap, ring: make([]string, 0, ringCap),
		Faults: map[string]int{}, Probes: map[string]int{}, Known: map[string]int{}, sig: sha256.New(), Sample: map[string]any{}}
}

// Tracef appends one line to the abstract event log.
func (r *Recorder) Tracef(format string, args ...any) {
	s := fmt.Sprintf(format, args...)
	r.h.Write([]byte(s))
	r.h.Write([]byte{'\n'})
	r.lines++
	if r.KeepAll {
		r.all = append(r.all, s)
		return
	}
	if r.ringCap == 0 {
		return
	}
	if len(r.ring) < r.ringCap {
		r.ring = append(r.ring, s)
	} else {
		r.ring[r.ringPos] = s
		r.ringPos = (r.ringPos + 1) % r.ringCap
	}
}

// Sigf appends to the secondary (path) signature only.
func (r *Recorder) Sigf(format string, args ...any) {
	fmt.Fprintf(r.sig, format, args...)
}

func (r *Recorder) Fault(name string) { r.Faults[name]++ }
func (r *Recorder) Probe(name string) { r.Probes[name]++ }
func (r *Recorder) ProbeN(name string, n int) {
	if n > 0 {
		r.Probes[name] += n
	}
}

func (r *Recorder) Digest() string  { return hex.EncodeToString(r.h.Sum(nil)[:12]) }
func (r *Recorder) PathSig() string { return hex.EncodeToString(r.sig.Sum(nil)[:8]) }
func (r *Recorder) Lines() int      { return r.lines }

// Trace returns the retained tail of the log in order.
func (r *Recorder) Trace() []string {
	if r.KeepAll {
		return r.all
	}
	if len(r.ring) < r.ringCap {
		return append([]string(nil), r.ring...)
	}
	out := make([]string, 0, r.ringCap)
	out = append(out, r.ring[r.ringPos:]...)
	out = append(out, r.ring[:r.ringPos]...)
	return out
}

// NonTrivial: at least one fault fired or one probe hit.
func (r *Recorder) NonTrivial() bool {
	for _, v := range r.Faults {
		if v > 0 {
			return true
		}
	}
	for _, v := range r.Probes {
		if v > 0 {
			return true
		}
	}
	return false
}

func SortedKeys[V any](m map[string]V) []string {
	ks := make([]string, 0, len(m))
	for k := range m {
		ks = append(ks, k)
	}
	sort.Strings(ks)
	return ks
}

var knownKeys = map[string]bool{}
var knownSpec string

// KnownSpec returns the installed known-findings list.
func KnownSpec() string { return knownSpec }

// SetKnown installs the list of known findings ("prop|key;prop|key").
func SetKnown(spec string) {
	knownKeys = map[string]bool{}
	knownSpec = spec
	start := 0
	for i := 0; i <= len(spec); i++ {
		if i == len(spec) || spec[i] == ';' {
			if i > start {
				knownKeys[spec[start:i]] = true
			}
			start = i + 1
		}
	}
}

// KnownFinding reports whether (prop, key) is a listed known finding; if so the hit is counted
// and the caller must not report it as a violation.
func (r *Recorder) KnownFinding(prop, key string) bool {
	k := prop + "|" + key
	if knownKeys[k] {
		r.Known[k]++
		return true
	}
	return false
}
