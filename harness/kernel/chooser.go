// Package kernel is the common core of the deterministic simulators: the single
// source of choices (PRNG or replay), the discrete-event queue, the trace digest,
// probe/fault counters, the shrinker and the worker main loop.
package kernel

import (
	"time"
)

// splitmix64 step.
func Mix(x uint64) uint64 {
	x += 0x9e3779b97f4a7c15
	z := x
	z = (z ^ (z >> 30)) * 0xbf58476d1ce4e5b9
	z = (z ^ (z >> 27)) * 0x94d049bb133111eb
	return z ^ (z >> 31)
}

// Mix3 derives a per-run seed from the batch seed, a simulator tag and the run index.
func Mix3(seed uint64, tag string, run uint64) uint64 {
	h := Mix(seed)
	for i := 0; i < len(tag); i++ {
		h = Mix(h ^ uint64(tag[i]))
	}
	return Mix(h ^ Mix(run))
}

type xoshiro struct{ s [4]uint64 }

func newXoshiro(seed uint64) *xoshiro {
	var x xoshiro
	for i := range x.s {
		seed = Mix(seed)
		x.s[i] = seed
	}
	return &x
}

func rotl(x uint64, k uint) uint64 { return (x << k) | (x >> (64 - k)) }

func (x *xoshiro) next() uint64 {
	s := &x.s
	r := rotl(s[1]*5, 7) * 9
	t := s[1] << 17
	s[2] ^= s[0]
	s[3] ^= s[1]
	s[1] ^= s[2]
	s[0] ^= s[3]
	s[2] ^= t
	s[3] = rotl(s[3], 45)
	return r
}

// Chooser is the only source of nondeterminism of a run. Value 0 is always the
// "simplest" option (no fault, minimum delay, honest behaviour, shortest input),
// which is what makes zeroing a useful shrinking move.
type Chooser struct {
	rng    *xoshiro
	replay []uint64
	pos    int
	// Rec is the list of every value handed out (after reduction mod n).
	Rec []uint64
	// Limit, if > 0, makes the chooser return 0 once that many choices were made
	// (used by the shrinker as a horizon cap).
	Limit int
}

func NewPRNGChooser(seed uint64) *Chooser { return &Chooser{rng: newXoshiro(seed)} }

func NewReplayChooser(choices []uint64) *Chooser {
	return &Chooser{replay: append([]uint64(nil), choices...)}
}

func (c *Chooser) raw() uint64 {
	if c.rng != nil {
		return c.rng.next()
	}
	if c.pos < len(c.replay) {
		v := c.replay[c.pos]
		c.pos++
		return v
	}
	c.pos++
	return 0
}

// Intn returns a value in [0,n). n<=1 returns 0 without consuming a choice.
func (c *Chooser) Intn(n int) int {
	if n <= 1 {
		return 0
	}
	var v uint64
	if c.Limit > 0 && len(c.Rec) >= c.Limit {
		v = 0
	} else {
		v = c.raw() % uint64(n)
	}
	c.Rec = append(c.Rec, v)
	return int(v)
}

// Chance returns true with probability permille/1000. The encoding is chosen so
// that the recorded value 0 means false (the simple option).
func (c *Chooser) Chance(permille int) bool {
	if permille <= 0 {
		return false
	}
	if permille >= 1000 {
		return true
	}
	// v in [0,1000): true iff v >= 1000-permille, so that 0 = false.
	return c.Intn(1000) >= 1000-permille
}

// Range returns a value in [lo,hi].
func (c *Chooser) Range(lo, hi int) int {
	if hi <= lo {
		return lo
	}
	return lo + c.Intn(hi-lo+1)
}

// Dur returns a duration in [lo,hi] at microsecond granularity.
func (c *Chooser) Dur(lo, hi time.Duration) time.Duration {
	if hi <= lo {
		return lo
	}
	steps := int((hi - lo) / time.Microsecond)
	if steps <= 0 {
		return lo
	}
	return lo + time.Duration(c.Intn(steps+1))*time.Microsecond
}

// Pick returns an index weighted by w (w[i] >= 0, not all zero).
func (c *Chooser) Pick(w []int) int {
	total := 0
	for _, x := range w {
		total += x
	}
	if total <= 0 {
		return 0
	}
	v := c.Intn(total)
	for i, x := range w {
		if v < x {
			return i
		}
		v -= x
	}
	return len(w) - 1
}

// Perm returns a permutation of [0,n) (Fisher-Yates; all zeros = identity).
func (c *Chooser) Perm(n int) []int {
	p := make([]int, n)
	for i := range p {
		p[i] = i
	}
	for i := 0; i < n-1; i++ {
		j := i + c.Intn(n-i)
		p[i], p[j] = p[j], p[i]
	}
	return p
}

// Bytes returns n chooser-derived bytes.
func (c *Chooser) Bytes(n int) []byte {
	b := make([]byte, n)
	for i := range b {
		b[i] = byte(c.Intn(256))
	}
	return b
}
