package kernel

import (
	"encoding/json"
	"flag"
	"fmt"
	"os"
	"path/filepath"
	"runtime/debug"
	"sync"

	logging "github.com/ipfs/go-log/v2"
	"runtime/pprof"
	"time"
)

// RunFunc executes one complete simulated run. All nondeterminism must come from c.
// It returns the first violation of prop found (nil if the property held).
type RunFunc func(prop, tier string, c *Chooser, r *Recorder) *Violation

type ReplayFile struct {
	Property  string         `json:"property"`
	Sim       string         `json:"sim"`
	Tier      string         `json:"tier"`
	Seed      uint64         `json:"seed"`
	Run       uint64         `json:"run"`
	RunSeed   uint64         `json:"run_seed"`
	Choices   []uint64       `json:"choices"`
	Original  int            `json:"original_choices"`
	Violation *Violation     `json:"violation"`
	Digest    string         `json:"digest"`
	Faults    map[string]int `json:"faults"`
	Trace     []string       `json:"trace"`
	// Known is the list of known findings that was suppressed while this run was recorded;
	// the replay applies the same list so that it is the same execution.
	Known string `json:"known,omitempty"`
}

type ViolationReport struct {
	Violation  *Violation `json:"violation"`
	Replay     string     `json:"replay"`
	Run        uint64     `json:"run"`
	Choices    int        `json:"choices"`
	Original   int        `json:"original_choices"`
	ShrinkRuns int        `json:"shrink_runs"`
}

type Summary struct {
	Prop        string            `json:"property"`
	Sim         string            `json:"sim"`
	Tier        string            `json:"tier"`
	Seed        uint64            `json:"seed"`
	Runs        int               `json:"runs"`
	Steps       int               `json:"steps"`
	SimNs       int64             `json:"sim_ns"`
	Faults      map[string]int    `json:"faults"`
	Probes      map[string]int    `json:"probes"`
	Digests     []string          `json:"digests"`
	NonTrivial  []string          `json:"nontrivial_digests"`
	PathSigs    []string          `json:"pathsigs"`
	Samples     []map[string]any  `json:"samples"`
	Violations  []ViolationReport `json:"violations"`
	KnownHits   map[string]int    `json:"known_hits"`
	InfraErrors []string          `json:"infra_errors"`
	WallS       float64           `json:"wall_s"`
	// SlowRuns lists runs that took more than 20 s of wall time ("run index: seconds").
	SlowRuns []string `json:"slow_runs"`
	// Abandoned counts runs that were still in progress when the budget (plus grace) ran out.
	Abandoned int `json:"abandoned"`
}

type infraPanic struct {
	val   any
	stack string
}

// Infra aborts the run with an infrastructure error (never a violation).
func Infra(format string, args ...any) {
	panic(&infraPanic{val: fmt.Sprintf(format, args...), stack: string(debug.Stack())})
}

func safeRun(run RunFunc, prop, tier string, c *Chooser, r *Recorder) (v *Violation, infra string) {
	defer func() {
		if p := recover(); p != nil {
			if ip, ok := p.(*infraPanic); ok {
				infra = fmt.Sprintf("infra: %v\n%s", ip.val, ip.stack)
			} else {
				infra = fmt.Sprintf("harness panic: %v\n%s", p, debug.Stack())
			}
		}
	}()
	v = run(prop, tier, c, r)
	return
}

// Shrink minimises a failing choice list by delta debugging; a candidate is kept iff the
// same (property, kind) is reported.
func Shrink(run RunFunc, prop, tier string, choices []uint64, want *Violation, maxRuns int, deadline time.Time) ([]uint64, int) {
	runs := 0
	try := func(cand []uint64) bool {
		if runs >= maxRuns || time.Now().After(deadline) {
			return false
		}
		runs++
		c := NewReplayChooser(cand)
		r := NewRecorder(0)
		v, infra := safeRun(run, prop, tier, c, r)
		return infra == "" && v != nil && v.Prop == want.Prop && v.Kind == want.Kind
	}
	cur := append([]uint64(nil), choices...)
	// 1. horizon cap: truncate the tail (exhausted list yields zeros).
	for n := len(cur) / 2; n >= 1; {
		if len(cur)-n >= 0 && try(cur[:len(cur)-n]) {
			cur = cur[:len(cur)-n]
			if n > len(cur) {
				n = len(cur)
			}
			if n == 0 {
				break
			}
		} else {
			n /= 2
		}
	}
	for pass := 0; pass < 3; pass++ {
		before := len(cur)
		changed := false
		// 2. delete chunks
		for chunk := len(cur) / 2; chunk >= 1; chunk /= 2 {
			for i := 0; i+chunk <= len(cur); {
				cand := append(append([]uint64(nil), cur[:i]...), cur[i+chunk:]...)
				if try(cand) {
					cur = cand
					changed = true
				} else {
					i += chunk
				}
			}
		}
		// 3. zero chunks, then single values
		for chunk := len(cur) / 2; chunk >= 1; chunk /= 2 {
			for i := 0; i+chunk <= len(cur); i += chunk {
				allZero := true
				for _, x := range cur[i : i+chunk] {
					if x != 0 {
						allZero = false
						break
					}
				}
				if allZero {
					continue
				}
				cand := append([]uint64(nil), cur...)
				for j := i; j < i+chunk; j++ {
					cand[j] = 0
				}
				if try(cand) {
					cur = cand
					changed = true
				}
			}
		}
		// 4. halve / decrement values
		for i := range cur {
			for cur[i] > 0 {
				cand := append([]uint64(nil), cur...)
				cand[i] = cur[i] / 2
				if try(cand) {
					cur = cand
					changed = true
					continue
				}
				cand[i] = cur[i] - 1
				if cand[i] != cur[i]/2 && try(cand) {
					cur = cand
					changed = true
					continue
				}
				break
			}
		}
		// drop trailing zeros
		for len(cur) > 0 && cur[len(cur)-1] == 0 {
			cur = cur[:len(cur)-1]
		}
		if !changed && len(cur) == before {
			break
		}
		if runs >= maxRuns || time.Now().After(deadline) {
			break
		}
	}
	return cur, runs
}

// Main is the entry point shared by all simulator binaries.
func Main(sim string, run RunFunc) { os.Exit(MainArgs(sim, run, os.Args[1:])) }

// MainArgs runs the worker with explicit arguments and returns the exit code.
func MainArgs(sim string, run RunFunc, args []string) int {
	flag := flag.NewFlagSet(sim, flag.ExitOnError)
	var (
		prop     = flag.String("prop", "", "property id")
		tier     = flag.String("tier", "quick", "quick|thorough")
		seed     = flag.Uint64("seed", 1, "batch seed")
		offset   = flag.Uint64("offset", 0, "first run index")
		stride   = flag.Uint64("stride", 1, "run index stride")
		maxRuns  = flag.Int("runs", 1000000000, "max runs")
		budget   = flag.Duration("budget", 30*time.Second, "wall budget")
		out      = flag.String("out", "", "summary json path")
		repDir   = flag.String("replays", "", "replay dir")
		replay   = flag.String("replay", "", "replay file")
		maxViol  = flag.Int("maxviol", 2, "stop after this many violations")
		dump     = flag.Bool("dump", false, "with -replay or -one: print the full trace")
		one      = flag.Int64("one", -1, "run only this run index and print its digest")
		shrinkN  = flag.Int("shrinkruns", 3000, "max re-executions while shrinking")
		shrinkT  = flag.Duration("shrinktime", 60*time.Second, "max wall time while shrinking")
		nsamples = flag.Int("samples", 3, "samples to keep")
		known    = flag.String("known", "", "known findings: prop|key;prop|key (suppressed, counted)")
		digLog   = flag.String("digestlog", "", "write one line 'run digest pathsig choices' per run (determinism self-test)")
	)
	cpuprof := flag.String("cpuprofile", "", "write cpu profile")
	_ = flag.Parse(args)
	logging.SetAllLoggers(logging.LevelFatal)
	SetKnown(*known)
	if *cpuprof != "" {
		f, _ := os.Create(*cpuprof)
		_ = pprof.StartCPUProfile(f)
		defer pprof.StopCPUProfile()
	}

	if *replay != "" {
		return doReplay(sim, run, *replay, *dump)
	}
	if *one >= 0 {
		rs := Mix3(*seed, sim+"/"+*prop, uint64(*one))
		c := NewPRNGChooser(rs)
		r := NewRecorder(0)
		r.KeepAll = *dump
		v, infra := safeRun(run, *prop, *tier, c, r)
		if *dump {
			for _, l := range r.Trace() {
				fmt.Println(l)
			}
		}
		res := map[string]any{"digest": r.Digest(), "pathsig": r.PathSig(), "choices": len(c.Rec), "violation": v, "infra": infra,
			"faults": r.Faults, "probes": r.Probes, "sample": r.Sample, "steps": r.Steps, "sim_ns": int64(r.SimTime)}
		b, _ := json.Marshal(res)
		fmt.Println(string(b))
		if infra != "" {
			return 2
		}
		return 0
	}

	start := time.Now()
	sum := &Summary{Prop: *prop, Sim: sim, Tier: *tier, Seed: *seed, Faults: map[string]int{}, Probes: map[string]int{}, KnownHits: map[string]int{}}
	digests := map[string]struct{}{}
	nontriv := map[string]struct{}{}
	pathsigs := map[string]struct{}{}
	var dlog *os.File
	if *digLog != "" {
		var err error
		if dlog, err = os.Create(*digLog); err != nil {
			fmt.Fprintln(os.Stderr, err)
			return 2
		}
		defer dlog.Close()
	}
	// Everything below that touches sum holds mu; the guard goroutine takes over (and ends the
	// process) only while the main goroutine is inside a run, i.e. not holding mu.
	var mu sync.Mutex
	inRun, curIdx, runStart := false, uint64(0), time.Time{}
	finish := func() int {
		sum.WallS = time.Since(start).Seconds()
		for d := range digests {
			sum.Digests = append(sum.Digests, d)
		}
		for d := range nontriv {
			sum.NonTrivial = append(sum.NonTrivial, d)
		}
		for d := range pathsigs {
			sum.PathSigs = append(sum.PathSigs, d)
		}
		b, _ := json.Marshal(sum)
		if *out != "" {
			if err := os.WriteFile(*out, b, 0o644); err != nil {
				fmt.Fprintln(os.Stderr, "cannot write summary:", err)
				return 2
			}
		} else {
			fmt.Println(string(b))
		}
		if len(sum.InfraErrors) > 0 {
			fmt.Fprintln(os.Stderr, sum.InfraErrors[0])
			return 2
		}
		if len(sum.Violations) > 0 {
			return 1
		}
		return 0
	}
	go func() {
		// A run still in progress well after the budget is given up: the worker must end in time.
		// If that run has been going for more than five minutes it is reported (a hang); otherwise
		// it was simply started late and is dropped.
		time.Sleep(*budget + 150*time.Second)
		for {
			mu.Lock()
			if inRun {
				break
			}
			mu.Unlock()
			time.Sleep(time.Second)
		}
		if el := time.Since(runStart); el > 5*time.Minute {
			sum.InfraErrors = append(sum.InfraErrors, fmt.Sprintf("run %d seed %d has been running for %s and was abandoned (endless run?)", curIdx, *seed, el.Round(time.Second)))
		} else {
			sum.Abandoned++
		}
		os.Exit(finish())
	}()
	for i := 0; i < *maxRuns; i++ {
		if time.Since(start) > *budget {
			break
		}
		idx := *offset + uint64(i)**stride
		rs := Mix3(*seed, sim+"/"+*prop, idx)
		c := NewPRNGChooser(rs)
		r := NewRecorder(300)
		mu.Lock()
		inRun, curIdx, runStart = true, idx, time.Now()
		mu.Unlock()
		v, infra := safeRun(run, *prop, *tier, c, r)
		mu.Lock()
		inRun = false
		if dt := time.Since(runStart); dt > 20*time.Second && len(sum.SlowRuns) < 20 {
			sum.SlowRuns = append(sum.SlowRuns, fmt.Sprintf("%d: %.0fs", idx, dt.Seconds()))
		}
		if infra != "" {
			sum.InfraErrors = append(sum.InfraErrors, fmt.Sprintf("run %d seed %d: %s", idx, *seed, infra))
			mu.Unlock()
			break
		}
		sum.Runs++
		sum.Steps += r.Steps
		sum.SimNs += int64(r.SimTime)
		for k, n := range r.Faults {
			sum.Faults[k] += n
		}
		for k, n := range r.Probes {
			sum.Probes[k] += n
		}
		for k, n := range r.Known {
			sum.KnownHits[k] += n
		}
		d := r.Digest()
		if dlog != nil {
			vk := "-"
			if v != nil {
				vk = v.Kind
			}
			fmt.Fprintf(dlog, "%d %s %s %d %s\n", idx, d, r.PathSig(), len(c.Rec), vk)
		}
		if len(digests) < 400000 {
			digests[d] = struct{}{}
			if r.NonTrivial() {
				nontriv[d] = struct{}{}
			}
			pathsigs[r.PathSig()] = struct{}{}
		}
		if len(sum.Samples) < *nsamples && (r.NonTrivial() || i > 20) {
			s := r.Sample
			s["run"] = idx
			s["digest"] = d
			s["faults"] = copyMap(r.Faults)
			s["probes"] = copyMap(r.Probes)
			tr := r.Trace()
			if len(tr) > 40 {
				tr = tr[len(tr)-40:]
			}
			s["trace_tail"] = tr
			sum.Samples = append(sum.Samples, s)
		}
		mu.Unlock()
		if v != nil {
			rep := reportViolation(sim, run, *prop, *tier, *seed, idx, rs, c.Rec, v, *repDir, *shrinkN, *shrinkT)
			mu.Lock()
			sum.Violations = append(sum.Violations, rep)
			n := len(sum.Violations)
			mu.Unlock()
			if n >= *maxViol {
				break
			}
		}
	}
	mu.Lock()
	return finish()
}

func copyMap(m map[string]int) map[string]int {
	o := make(map[string]int, len(m))
	for k, v := range m {
		o[k] = v
	}
	return o
}

func reportViolation(sim string, run RunFunc, prop, tier string, seed, idx, rs uint64, choices []uint64, v *Violation, dir string, shrinkN int, shrinkT time.Duration) ViolationReport {
	min, nruns := Shrink(run, prop, tier, choices, v, shrinkN, time.Now().Add(shrinkT))
	// Re-run the minimised list to get its trace and (possibly different) detail.
	c := NewReplayChooser(min)
	r := NewRecorder(0)
	r.KeepAll = true
	v2, infra := safeRun(run, prop, tier, c, r)
	if infra != "" || v2 == nil || v2.Prop != v.Prop || v2.Kind != v.Kind {
		// Fall back to the unshrunk list.
		min = choices
		c = NewReplayChooser(min)
		r = NewRecorder(0)
		r.KeepAll = true
		v2, _ = safeRun(run, prop, tier, c, r)
		if v2 == nil {
			v2 = v
		}
	}
	tr := r.Trace()
	if len(tr) > 2000 {
		tr = tr[len(tr)-2000:]
	}
	rf := &ReplayFile{Property: v2.Prop, Sim: sim, Tier: tier, Seed: seed, Run: idx, RunSeed: rs, Choices: min, Original: len(choices),
		Violation: v2, Digest: r.Digest(), Faults: r.Faults, Trace: tr, Known: KnownSpec()}
	path := ""
	if dir != "" {
		_ = os.MkdirAll(dir, 0o755)
		path = filepath.Join(dir, fmt.Sprintf("%s-%s-%d-%d.json", v2.Prop, sim, seed, idx))
		b, _ := json.MarshalIndent(rf, "", " ")
		_ = os.WriteFile(path, b, 0o644)
	}
	return ViolationReport{Violation: v2, Replay: path, Run: idx, Choices: len(min), Original: len(choices), ShrinkRuns: nruns}
}

func doReplay(sim string, run RunFunc, path string, dump bool) int {
	b, err := os.ReadFile(path)
	if err != nil {
		fmt.Fprintln(os.Stderr, err)
		return 2
	}
	var rf ReplayFile
	if err := json.Unmarshal(b, &rf); err != nil {
		fmt.Fprintln(os.Stderr, err)
		return 2
	}
	if rf.Sim != sim {
		fmt.Fprintf(os.Stderr, "replay file is for simulator %q, this is %q\n", rf.Sim, sim)
		return 2
	}
	SetKnown(rf.Known)
	c := NewReplayChooser(rf.Choices)
	r := NewRecorder(0)
	r.KeepAll = true
	v, infra := safeRun(run, rf.Property, rf.Tier, c, r)
	if dump {
		for _, l := range r.Trace() {
			fmt.Println(l)
		}
	}
	res := map[string]any{"digest": r.Digest(), "expected_digest": rf.Digest, "violation": v, "infra": infra}
	out, _ := json.Marshal(res)
	fmt.Println(string(out))
	if infra != "" {
		return 2
	}
	if v != nil && rf.Violation != nil && v.Prop == rf.Violation.Prop && v.Kind == rf.Violation.Kind && r.Digest() == rf.Digest {
		fmt.Printf("REPRODUCED property=%s kind=%s key=%s\n", v.Prop, v.Kind, v.Key)
		return 1
	}
	if v != nil {
		fmt.Printf("DIFFERENT property=%s kind=%s (digest match: %v)\n", v.Prop, v.Kind, r.Digest() == rf.Digest)
		return 3
	}
	fmt.Println("NOT-REPRODUCED")
	return 0
}

// IsInfra tells whether a recovered panic value was raised by Infra.
func IsInfra(p any) bool { _, ok := p.(*infraPanic); return ok }
