package kernel

import (
	"container/heap"
	"time"
)

// Event is one entry of the discrete-event queue, totally ordered by (At, Seq).
type Event struct {
	At  time.Duration
	Seq uint64
	Run func()
	// Tag is free for the simulator (e.g. to cancel or reschedule classes of events).
	Tag   int
	Actor int
	Dead  bool
	idx   int
}

type eventHeap []*Event

func (h eventHeap) Len() int { return len(h) }
func (h eventHeap) Less(i, j int) bool {
	if h[i].At != h[j].At {
		return h[i].At < h[j].At
	}
	return h[i].Seq < h[j].Seq
}
func (h eventHeap) Swap(i, j int) { h[i], h[j] = h[j], h[i]; h[i].idx = i; h[j].idx = j }
func (h *eventHeap) Push(x any)   { e := x.(*Event); e.idx = len(*h); *h = append(*h, e) }
func (h *eventHeap) Pop() any {
	old := *h
	n := len(old)
	e := old[n-1]
	old[n-1] = nil
	*h = old[:n-1]
	return e
}

// Sched is a discrete-event scheduler with virtual time.
type Sched struct {
	now time.Duration
	seq uint64
	q   eventHeap
	// Steps counts executed events.
	Steps int
}

func (s *Sched) Now() time.Duration { return s.now }
func (s *Sched) Seq() uint64        { return s.seq }
func (s *Sched) Pending() int       { return len(s.q) }

// At schedules f at absolute virtual time t (not before now).
func (s *Sched) At(t time.Duration, f func()) *Event {
	if t < s.now {
		t = s.now
	}
	s.seq++
	e := &Event{At: t, Seq: s.seq, Run: f}
	heap.Push(&s.q, e)
	return e
}

func (s *Sched) After(d time.Duration, f func()) *Event { return s.At(s.now+d, f) }

// Reschedule moves a pending event to a new time (keeping its sequence number).
func (s *Sched) Reschedule(e *Event, t time.Duration) {
	if e.Dead || e.idx < 0 || e.idx >= len(s.q) || s.q[e.idx] != e {
		return
	}
	if t < s.now {
		t = s.now
	}
	e.At = t
	heap.Fix(&s.q, e.idx)
}

// Each calls f for every pending event (in heap order, not time order).
func (s *Sched) Each(f func(*Event)) {
	for _, e := range s.q {
		f(e)
	}
}

// Step runs the next event. Returns false when the queue is empty.
func (s *Sched) Step() bool {
	for len(s.q) > 0 {
		e := heap.Pop(&s.q).(*Event)
		e.idx = -1
		if e.Dead {
			continue
		}
		if e.At > s.now {
			s.now = e.At
		}
		s.Steps++
		e.Run()
		return true
	}
	return false
}
