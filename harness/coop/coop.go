// Package coop is a cooperative scheduler for real goroutines: tasks run one at a time and hand
// control back to the scheduler at yield points (inserted before every statement of selected
// repository files by tools/instr) and whenever they would block on a simulated mutex (package
// simsync). Which task proceeds is decided by a caller-supplied choice function (the seeded
// chooser), so an interleaving at statement granularity is a pure function of the seed and can be
// replayed and shrunk. Outside Run everything here is a no-op.
package coop

import (
	"fmt"
	"time"
)

type Task struct {
	Name    string
	fn      func()
	resume  chan struct{}
	started bool
	done    bool
	wait    func() bool // non-nil: blocked until it returns true
	Panic   any
	Steps   int
}

func (t *Task) Done() bool { return t.done }

type Sched struct {
	// Choose returns a value in [0,n); 0 must be the "simplest" choice.
	Choose func(n int) int
	// SwitchPct is the chance (in percent) that a yield point hands control to the scheduler.
	SwitchPct int
	// Trace, if set, receives scheduling decisions.
	Trace func(string)

	tasks    []*Task
	cur      *Task
	back     chan struct{}
	free     bool // no more voluntary switches: every task runs until it blocks or ends
	Switches int
	Yields   int
	Blocks   int
}

var active *Sched

// DebugYield, if set, is called at every yield point passed by a task (diagnostics only).
var DebugYield func(task string)

// Current returns the task executing right now under an active scheduler, or nil.
func Current() *Task {
	if s := active; s != nil {
		return s.cur
	}
	return nil
}

func New(choose func(n int) int, switchPct int) *Sched {
	return &Sched{Choose: choose, SwitchPct: switchPct, back: make(chan struct{})}
}

// Go registers a task; it starts running when the scheduler first picks it.
func (s *Sched) Go(name string, fn func()) *Task {
	t := &Task{Name: name, fn: fn, resume: make(chan struct{})}
	s.tasks = append(s.tasks, t)
	return t
}

// Yield is a potential switch point. It is a no-op unless called by the current task of an active
// scheduler.
func Yield() {
	s := active
	if s == nil || s.cur == nil {
		return
	}
	s.Yields++
	if DebugYield != nil {
		DebugYield(s.cur.Name)
	}
	if s.free || s.SwitchPct <= 0 {
		return
	}
	// value 0 (the simplest choice, what shrinking converges to) means "keep running"
	if s.Choose(100) < 100-s.SwitchPct {
		return
	}
	s.Switches++
	s.handoff()
}

// BlockUntil parks the current task until cond holds. cond is evaluated by the scheduler while no
// task runs. Outside a cooperative phase it panics: nothing could ever make cond true.
func BlockUntil(cond func() bool) {
	s := active
	if s == nil || s.cur == nil {
		panic("coop.BlockUntil outside a cooperative phase")
	}
	for !cond() {
		s.Blocks++
		s.cur.wait = cond
		s.handoff()
	}
}

func (s *Sched) handoff() {
	t := s.cur
	s.back <- struct{}{}
	<-t.resume
}

// StuckAfter is how long a task may run without reaching a yield point or ending.
var StuckAfter = 30 * time.Second

// ErrStuck is returned by Run when a task neither yields nor ends: it is blocked outside the
// scheduler's control. Its goroutine is abandoned.
type ErrStuck struct{ Task string }

func (e *ErrStuck) Error() string { return "task " + e.Task + " is blocked outside the scheduler's control" }

// ErrDeadlock is returned by Run when unfinished tasks remain and none can proceed.
type ErrDeadlock struct{ Blocked []string }

func (e *ErrDeadlock) Error() string { return fmt.Sprintf("deadlock: blocked tasks %v", e.Blocked) }

// Run schedules the registered tasks until all have finished. After maxSteps scheduling decisions
// voluntary switches stop (every task then runs until it blocks or ends). A panic inside a task is
// recorded in Task.Panic and ends that task only.
func (s *Sched) Run(maxSteps int) error {
	if active != nil {
		panic("coop: nested Run")
	}
	active = s
	defer func() { active = nil; s.cur = nil }()
	for step := 0; ; step++ {
		if step >= maxSteps {
			s.free = true
		}
		var runnable []*Task
		left := 0
		for _, t := range s.tasks {
			if t.done {
				continue
			}
			left++
			if t.wait != nil {
				if !t.wait() {
					continue
				}
				t.wait = nil
			}
			runnable = append(runnable, t)
		}
		if left == 0 {
			return nil
		}
		if len(runnable) == 0 {
			e := &ErrDeadlock{}
			for _, t := range s.tasks {
				if !t.done {
					e.Blocked = append(e.Blocked, t.Name)
				}
			}
			return e
		}
		t := runnable[0]
		if len(runnable) > 1 {
			t = runnable[s.Choose(len(runnable))]
		}
		if s.Trace != nil {
			s.Trace("run " + t.Name)
		}
		t.Steps++
		s.cur = t
		if !t.started {
			t.started = true
			go func() {
				<-t.resume
				defer func() {
					if p := recover(); p != nil {
						t.Panic = p
					}
					t.done = true
					s.back <- struct{}{}
				}()
				t.fn()
			}()
		}
		t.resume <- struct{}{}
		select {
		case <-s.back:
		case <-time.After(StuckAfter):
			// the task blocks on something the scheduler does not control (a channel, a real lock)
			return &ErrStuck{Task: t.Name}
		}
		s.cur = nil
	}
}

// Tasks returns the registered tasks.
func (s *Sched) Tasks() []*Task { return s.tasks }
