// Package simos is a simulated file system with the subset of package os used by the
// write-ahead log (a superset, so that plausible edits still build). A file is
// (durable bytes, volatile tail); Sync makes the tail and the directory entry durable; a crash
// raised inside any call keeps the durable bytes plus a chosen prefix of the volatile tail.
package simos

import (
	"errors"
	"io"
	"io/fs"
	"path/filepath"
	"sort"
	"strings"
	"syscall"
	"time"
)

const (
	O_RDONLY = 0x0
	O_WRONLY = 0x1
	O_RDWR   = 0x2
	O_APPEND = 0x400
	O_CREATE = 0x40
	O_EXCL   = 0x80
	O_SYNC   = 0x101000
	O_TRUNC  = 0x200
)

var (
	ErrNotExist = fs.ErrNotExist
	ErrExist    = fs.ErrExist
	ErrClosed   = fs.ErrClosed
)

type FileMode = fs.FileMode
type FileInfo = fs.FileInfo
type DirEntry = fs.DirEntry
type PathError = fs.PathError

// Crash is the panic value raised when the simulated process stops inside a file-system call.
type Crash struct {
	Call int
	Op   string
}

type inode struct {
	durable  []byte
	volatile []byte // appended but not yet synced
	linked   bool   // directory entry durable
	removed  bool   // removed, removal not yet durable (only with LostRemoves)
}

// Disk is one simulated file system.
type Disk struct {
	files map[string]*inode
	dirs  map[string]bool
	// Calls counts file-system calls; CrashAt >= 0 stops the process inside that call.
	Calls   int
	CrashAt int
	// PartialOnCrash(n) chooses how many of n bytes of the write being executed at the crash
	// reached the volatile tail.
	PartialOnCrash func(n int) int
	// Fail, if set, may return an error to inject for (op, path) - a clean failure without effect.
	Fail func(op, path string) error
	// LostRemoves makes removals volatile until the next Sync of any file in the directory.
	LostRemoves bool
	// Trace receives one line per call.
	Trace func(string)
	gen   int // incremented at every crash; stale handles fail
}

func NewDisk() *Disk {
	return &Disk{files: map[string]*inode{}, dirs: map[string]bool{}, CrashAt: -1}
}

// Cur is the disk used by the package-level functions.
var Cur = NewDisk()

func Use(d *Disk) { Cur = d }

func (d *Disk) call(op, path string) error {
	n := d.Calls
	d.Calls++
	if d.Trace != nil {
		d.Trace(op + " " + filepath.Base(path))
	}
	if d.CrashAt >= 0 && n >= d.CrashAt {
		d.CrashAt = -1
		panic(Crash{Call: n, Op: op})
	}
	if d.Fail != nil {
		if err := d.Fail(op, path); err != nil {
			return &fs.PathError{Op: op, Path: path, Err: err}
		}
	}
	return nil
}

// Clone copies the complete state (durable and volatile) without fault settings.
func (d *Disk) Clone() *Disk {
	n := NewDisk()
	for k, f := range d.files {
		// contents are shared copy-on-write: capacity is clipped so that any append reallocates
		n.files[k] = &inode{durable: f.durable[:len(f.durable):len(f.durable)], volatile: f.volatile[:len(f.volatile):len(f.volatile)], linked: f.linked, removed: f.removed}
	}
	for k := range d.dirs {
		n.dirs[k] = true
	}
	return n
}

// Recover applies the effect of a crash: every file keeps its durable bytes plus keep(path, n)
// bytes of its n-byte volatile tail, followed by zeros(path) zero bytes; files whose directory
// entry was never made durable vanish if vanish(path); non-durable removals are undone.
func (d *Disk) Recover(keep func(path string, n int) int, zeros func(path string) int, vanish func(path string) bool) {
	d.gen++
	for p, f := range d.files {
		if f.removed {
			f.removed = false // the removal was lost
		}
		if !f.linked && vanish != nil && vanish(p) {
			delete(d.files, p)
			continue
		}
		k := 0
		if len(f.volatile) > 0 && keep != nil {
			k = keep(p, len(f.volatile))
		}
		f.durable = append(f.durable, f.volatile[:k]...)
		if zeros != nil && k < len(f.volatile) {
			if z := zeros(p); z > 0 {
				f.durable = append(f.durable, make([]byte, z)...)
			}
		}
		f.volatile = nil
		f.linked = true
	}
}

// Content returns durable+volatile bytes of a file (what a reader in the same process sees).
func (d *Disk) Content(path string) ([]byte, bool) {
	f, ok := d.files[path]
	if !ok || f.removed {
		return nil, false
	}
	return append(append([]byte(nil), f.durable...), f.volatile...), true
}

// SetContent overwrites a file with durable content (used to build torn states).
func (d *Disk) SetContent(path string, b []byte) {
	d.files[path] = &inode{durable: append([]byte(nil), b...), linked: true}
}

func (d *Disk) Names(dir string) []string {
	var out []string
	for p, f := range d.files {
		if filepath.Dir(p) == filepath.Clean(dir) && !f.removed {
			out = append(out, filepath.Base(p))
		}
	}
	sort.Strings(out)
	return out
}

// File is an open handle.
type File struct {
	d      *Disk
	path   string
	ino    *inode
	gen    int
	pos    int
	closed bool
	write  bool
}

func (f *File) ok(op string) error {
	if f == nil {
		return fs.ErrInvalid
	}
	if f.closed || f.gen != f.d.gen {
		return &fs.PathError{Op: op, Path: f.path, Err: fs.ErrClosed}
	}
	return nil
}

func (f *File) Name() string { return f.path }

func (f *File) Write(b []byte) (int, error) {
	if err := f.ok("write"); err != nil {
		return 0, err
	}
	if !f.write {
		return 0, &fs.PathError{Op: "write", Path: f.path, Err: syscall.EBADF}
	}
	d := f.d
	// a crash inside write leaves a prefix of b in the volatile tail
	if d.CrashAt >= 0 && d.Calls >= d.CrashAt {
		k := 0
		if d.PartialOnCrash != nil {
			k = d.PartialOnCrash(len(b))
		}
		f.ino.volatile = append(f.ino.volatile, b[:k]...)
	}
	if err := d.call("write", f.path); err != nil {
		return 0, err
	}
	f.ino.volatile = append(f.ino.volatile, b...)
	return len(b), nil
}

func (f *File) WriteString(s string) (int, error) { return f.Write([]byte(s)) }

func (f *File) Sync() error {
	if err := f.ok("sync"); err != nil {
		return err
	}
	if err := f.d.call("sync", f.path); err != nil {
		return err
	}
	f.ino.durable = append(f.ino.durable, f.ino.volatile...)
	f.ino.volatile = nil
	f.ino.linked = true
	// a sync also makes pending removals in the same directory durable
	dir := filepath.Dir(f.path)
	for p, x := range f.d.files {
		if x.removed && filepath.Dir(p) == dir {
			delete(f.d.files, p)
		}
	}
	return nil
}

func (f *File) Close() error {
	if err := f.ok("close"); err != nil {
		return err
	}
	if err := f.d.call("close", f.path); err != nil {
		return err
	}
	f.closed = true
	return nil
}

func (f *File) Read(b []byte) (int, error) {
	if err := f.ok("read"); err != nil {
		return 0, err
	}
	// reads have no effect on the disk: they are neither crash points nor traced
	nd := len(f.ino.durable)
	total := nd + len(f.ino.volatile)
	if f.pos >= total {
		return 0, io.EOF
	}
	n := 0
	if f.pos < nd {
		n = copy(b, f.ino.durable[f.pos:])
	}
	if n < len(b) && f.pos+n >= nd {
		n += copy(b[n:], f.ino.volatile[f.pos+n-nd:])
	}
	f.pos += n
	return n, nil
}

type fileInfo struct {
	name string
	size int64
	dir  bool
}

func (i fileInfo) Name() string       { return i.name }
func (i fileInfo) Size() int64        { return i.size }
func (i fileInfo) Mode() fs.FileMode  { if i.dir { return fs.ModeDir | 0o777 }; return 0o666 }
func (i fileInfo) ModTime() time.Time { return time.Time{} }
func (i fileInfo) IsDir() bool        { return i.dir }
func (i fileInfo) Sys() any           { return nil }
func (i fileInfo) Type() fs.FileMode  { return i.Mode().Type() }
func (i fileInfo) Info() (fs.FileInfo, error) { return i, nil }

func (f *File) Stat() (fs.FileInfo, error) {
	if err := f.ok("stat"); err != nil {
		return nil, err
	}
	if err := f.d.call("stat", f.path); err != nil {
		return nil, err
	}
	return fileInfo{name: filepath.Base(f.path), size: int64(len(f.ino.durable) + len(f.ino.volatile))}, nil
}

func (f *File) Truncate(size int64) error {
	if err := f.ok("truncate"); err != nil {
		return err
	}
	if err := f.d.call("truncate", f.path); err != nil {
		return err
	}
	all := append(append([]byte(nil), f.ino.durable...), f.ino.volatile...)
	if int(size) < len(all) {
		all = all[:size]
	}
	if int(size) <= len(f.ino.durable) {
		f.ino.durable, f.ino.volatile = all, nil
	} else {
		f.ino.volatile = all[len(f.ino.durable):]
	}
	return nil
}

func OpenFile(name string, flag int, perm fs.FileMode) (*File, error) {
	d := Cur
	name = filepath.Clean(name)
	if err := d.call("openfile", name); err != nil {
		return nil, err
	}
	ino, exists := d.files[name]
	if exists && ino.removed {
		exists = false
	}
	if flag&O_CREATE != 0 {
		if exists && flag&O_EXCL != 0 {
			return nil, &fs.PathError{Op: "open", Path: name, Err: fs.ErrExist}
		}
		if !exists {
			if !d.dirs[filepath.Dir(name)] {
				return nil, &fs.PathError{Op: "open", Path: name, Err: fs.ErrNotExist}
			}
			ino = &inode{}
			d.files[name] = ino
		}
	} else if !exists {
		return nil, &fs.PathError{Op: "open", Path: name, Err: fs.ErrNotExist}
	}
	if flag&O_TRUNC != 0 {
		ino.durable, ino.volatile = nil, nil
	}
	return &File{d: d, path: name, ino: ino, gen: d.gen, write: flag&(O_WRONLY|O_RDWR) != 0}, nil
}

func Open(name string) (*File, error) { return OpenFile(name, O_RDONLY, 0) }

func Create(name string) (*File, error) { return OpenFile(name, O_RDWR|O_CREATE|O_TRUNC, 0o666) }

func Remove(name string) error {
	d := Cur
	name = filepath.Clean(name)
	if err := d.call("remove", name); err != nil {
		return err
	}
	f, ok := d.files[name]
	if !ok || f.removed {
		return &fs.PathError{Op: "remove", Path: name, Err: fs.ErrNotExist}
	}
	if d.LostRemoves {
		f.removed = true
	} else {
		delete(d.files, name)
	}
	return nil
}

func Rename(oldp, newp string) error {
	d := Cur
	oldp, newp = filepath.Clean(oldp), filepath.Clean(newp)
	if err := d.call("rename", oldp); err != nil {
		return err
	}
	f, ok := d.files[oldp]
	if !ok || f.removed {
		return &fs.PathError{Op: "rename", Path: oldp, Err: fs.ErrNotExist}
	}
	delete(d.files, oldp)
	d.files[newp] = f
	return nil
}

func Truncate(name string, size int64) error {
	f, err := OpenFile(name, O_RDWR, 0)
	if err != nil {
		return err
	}
	return f.Truncate(size)
}

func ReadDir(name string) ([]fs.DirEntry, error) {
	d := Cur
	name = filepath.Clean(name)
	if err := d.call("readdir", name); err != nil {
		return nil, err
	}
	if !d.dirs[name] {
		return nil, &fs.PathError{Op: "readdir", Path: name, Err: fs.ErrNotExist}
	}
	var out []fs.DirEntry
	for _, n := range d.Names(name) {
		f := d.files[filepath.Join(name, n)]
		out = append(out, fileInfo{name: n, size: int64(len(f.durable) + len(f.volatile))})
	}
	for p := range d.dirs {
		if filepath.Dir(p) == name && p != name {
			out = append(out, fileInfo{name: filepath.Base(p), dir: true})
		}
	}
	sort.Slice(out, func(i, j int) bool { return out[i].Name() < out[j].Name() })
	return out, nil
}

func MkdirAll(path string, perm fs.FileMode) error {
	d := Cur
	path = filepath.Clean(path)
	if err := d.call("mkdirall", path); err != nil {
		return err
	}
	for p := path; p != "/" && p != "." && p != ""; p = filepath.Dir(p) {
		d.dirs[p] = true
	}
	return nil
}

func Mkdir(path string, perm fs.FileMode) error { return MkdirAll(path, perm) }

func Stat(name string) (fs.FileInfo, error) {
	d := Cur
	name = filepath.Clean(name)
	if err := d.call("stat", name); err != nil {
		return nil, err
	}
	if d.dirs[name] {
		return fileInfo{name: filepath.Base(name), dir: true}, nil
	}
	f, ok := d.files[name]
	if !ok || f.removed {
		return nil, &fs.PathError{Op: "stat", Path: name, Err: fs.ErrNotExist}
	}
	return fileInfo{name: filepath.Base(name), size: int64(len(f.durable) + len(f.volatile))}, nil
}

func ReadFile(name string) ([]byte, error) {
	f, err := Open(name)
	if err != nil {
		return nil, err
	}
	b, _ := f.d.Content(f.path)
	return b, nil
}

func WriteFile(name string, data []byte, perm fs.FileMode) error {
	f, err := OpenFile(name, O_WRONLY|O_CREATE|O_TRUNC, perm)
	if err != nil {
		return err
	}
	if _, err := f.Write(data); err != nil {
		return err
	}
	return f.Close()
}

func IsNotExist(err error) bool { return errors.Is(err, fs.ErrNotExist) }
func IsExist(err error) bool    { return errors.Is(err, fs.ErrExist) }

var _ = strings.HasPrefix
