package storesim

import (
	"bytes"
	"errors"
	"fmt"
	"sort"

	"github.com/filecoin-project/go-f3/certs"
	"github.com/filecoin-project/go-f3/certstore"
	"github.com/filecoin-project/go-f3/gpbft"
	"github.com/filecoin-project/go-f3/zz_verif/certgen"
	"github.com/filecoin-project/go-f3/zz_verif/kernel"
	"github.com/filecoin-project/go-f3/zz_verif/simds"
)

type subscriber struct {
	ch      <-chan *certs.FinalityCertificate
	close   func()
	pending *certs.FinalityCertificate // what a receive must yield (nil = nothing)
}

type c09 struct {
	*env
	ds      *simds.DS
	cs      *certstore.Store
	m       *model
	subs    []*subscriber
	base    *gpbft.TipSet
	initial gpbft.PowerEntries
	long    bool // the history is long: comparisons are sampled
}

func (s *c09) latestHead() *gpbft.TipSet {
	if n := len(s.m.certs); n > 0 {
		return s.m.certs[n-1].ECChain.Head()
	}
	return s.base
}

func (s *c09) dropSubs() {
	for _, sb := range s.subs {
		sb.close()
	}
	s.subs = nil
}

// reopen closes the handle and opens the store again with one of the open variants.
func (s *c09) reopen() {
	c, m := s.c, s.m
	s.dropSubs()
	s.cs = nil
	s.ds.Rotate = c.Intn(7)
	switch v := c.Intn(6); v {
	case 0, 1:
		cs, err := certstore.OpenStore(bg, s.ds)
		s.r.Tracef("OpenStore -> %v", err)
		if !m.created {
			if !isNotInit(err) {
				s.fail("open_uninitialised", "OpenStore", "OpenStore on an uninitialised datastore returned %v", err)
			}
			return
		}
		if err != nil {
			s.fail("reopen_failed", "OpenStore", "OpenStore failed on an existing store: %v", err)
			return
		}
		s.cs = s.tune(cs)
	case 2, 3:
		first, tbl := m.first, s.initial
		if !m.created {
			first = uint64(c.Intn(3)) + s.firstChoice()
			tbl = s.gen.InitialTable(1 + c.Intn(5))
		}
		cs, err := certstore.OpenOrCreateStore(bg, s.ds, first, tbl)
		s.r.Tracef("OpenOrCreateStore(%d) -> %v", first, err)
		if err != nil {
			s.fail("reopen_failed", "OpenOrCreateStore", "OpenOrCreateStore with the original parameters failed: %v", err)
			return
		}
		if !m.created {
			m.created, m.first, m.tables, s.initial = true, first, []gpbft.PowerEntries{tbl}, tbl
		}
		s.cs = s.tune(cs)
	case 4:
		// mismatching parameters must be refused and change nothing
		if !m.created {
			return
		}
		var err error
		if c.Chance(500) {
			_, err = certstore.OpenOrCreateStore(bg, s.ds, m.first+1+uint64(c.Intn(3)), s.initial)
		} else {
			_, err = certstore.OpenOrCreateStore(bg, s.ds, m.first, s.gen.InitialTable(1+c.Intn(4)))
		}
		s.r.Tracef("OpenOrCreateStore(mismatch) -> %v", err)
		if err == nil {
			s.fail("mismatching_reopen_accepted", "OpenOrCreateStore", "OpenOrCreateStore accepted a different first instance or initial table")
		}
		s.r.Probe("reopen_mismatch_refused")
	case 5:
		if !m.created {
			first := s.firstChoice()
			tbl := s.gen.InitialTable(1 + c.Intn(5))
			cs, err := certstore.CreateStore(bg, s.ds, first, tbl)
			s.r.Tracef("CreateStore(%d) -> %v", first, err)
			if err != nil {
				s.fail("create_failed", "CreateStore", "CreateStore on an empty datastore failed: %v", err)
				return
			}
			m.created, m.first, m.tables, s.initial = true, first, []gpbft.PowerEntries{tbl}, tbl
			s.cs = s.tune(cs)
			return
		}
		_, err := certstore.CreateStore(bg, s.ds, m.first, s.initial)
		if err == nil {
			s.fail("create_on_existing_accepted", "CreateStore", "CreateStore succeeded although the store already exists")
		}
	}
	if s.cs == nil && m.created && s.viol == nil {
		cs, err := certstore.OpenStore(bg, s.ds)
		if err != nil {
			s.fail("reopen_failed", "OpenStore", "OpenStore failed on an existing store: %v", err)
			return
		}
		s.cs = s.tune(cs)
	}
	if s.cs != nil && s.viol == nil {
		s.r.Probe("reopen")
		s.compareAll("after reopen")
	}
}

func (s *c09) firstChoice() uint64 {
	c := s.c
	switch c.Intn(4) {
	case 0:
		return 0
	case 1:
		return uint64(1 + c.Intn(20))
	case 2:
		if s.freq > 0 {
			return s.freq*uint64(1+c.Intn(3)) - uint64(c.Intn(3))
		}
		return 1440*uint64(1+c.Intn(2)) - uint64(1+c.Intn(4))
	default:
		return uint64(c.Intn(5000))
	}
}

// bulkPhase appends a long run of certificates (more than any buffer or batch size one would
// pick for a range read) and switches the comparisons to the sampled form.
func (s *c09) bulkPhase(n int) {
	c, m, cs, g := s.c, s.m, s.cs, s.gen
	s.long = true
	for i := 0; i < n && s.viol == nil; i++ {
		next := m.next()
		cur := m.tables[len(m.tables)-1]
		nt := cur
		if c.Chance(40) {
			nt = g.Evolve(cur)
		}
		cert := g.Cert(next, g.Chain(s.latestHead(), next, 1), cur, nt)
		if err := cs.Put(bg, cert); err != nil {
			s.fail("valid_put_rejected", "put", "Put of the immediate successor %d was rejected: %v", next, err)
			return
		}
		m.certs = append(m.certs, cert)
		m.tables = append(m.tables, nt)
		for _, sb := range s.subs {
			sb.pending = cert
		}
	}
	s.r.Probe("long_history")
	s.r.Tracef("bulk: %d certificates appended, store holds %d", n, len(m.certs))
	s.compareAll("after a long run of puts")
}

// compareSampled is compareAll for long histories: latest, the whole range in one read, some
// sub-ranges and single reads, and the power tables at the edges, around every checkpoint
// multiple and at random instances.
func (s *c09) compareSampled(when string) {
	c, m, cs := s.c, s.m, s.cs
	n := len(m.certs)
	bad := func(format string, args ...any) {
		s.fail("state_mismatch", "long", "%s (history of %d certificates from %d): %s", when, n, m.first, fmt.Sprintf(format, args...))
	}
	l := cs.Latest()
	if (l == nil) != (n == 0) || l != nil && !bytes.Equal(certgen.CertBytes(l), certgen.CertBytes(m.certs[n-1])) {
		bad("Latest is not the last certificate put")
		return
	}
	checkRange := func(a, b int) bool { // indices, inclusive, b < n
		rng, err := cs.GetRange(bg, m.first+uint64(a), m.first+uint64(b))
		if err != nil || len(rng) != b-a+1 {
			bad("GetRange(%d,%d) over stored certificates returned %d certificates and error %v", m.first+uint64(a), m.first+uint64(b), len(rng), err)
			return false
		}
		for i := range rng {
			if !bytes.Equal(certgen.CertBytes(&rng[i]), certgen.CertBytes(m.certs[a+i])) {
				bad("GetRange(%d,%d): element %d differs from the certificate put at %d", m.first+uint64(a), m.first+uint64(b), i, m.first+uint64(a+i))
				return false
			}
		}
		return true
	}
	if n > 0 {
		if !checkRange(0, n-1) {
			return
		}
		for k := 0; k < 4; k++ {
			a := c.Intn(n)
			if !checkRange(a, a+c.Intn(n-a)) {
				return
			}
		}
		for k := 0; k < 8; k++ {
			j := c.Intn(n)
			got, err := cs.Get(bg, m.first+uint64(j))
			if err != nil || !bytes.Equal(certgen.CertBytes(got), certgen.CertBytes(m.certs[j])) {
				bad("Get(%d) -> err %v or wrong certificate", m.first+uint64(j), err)
				return
			}
		}
	}
	idx := map[int]bool{0: true, n: true}
	if n > 0 {
		idx[n-1] = true
	}
	for _, f := range []uint64{s.freq, 1440} {
		if f == 0 {
			continue
		}
		for inst := (m.first/f + 1) * f; inst <= m.next(); inst += f {
			for d := -1; d <= 1; d++ {
				if j := int(inst-m.first) + d; j >= 0 && j <= n {
					idx[j] = true
				}
			}
			if len(idx) > 60 {
				break
			}
		}
	}
	for k := 0; k < 12; k++ {
		idx[c.Intn(n+1)] = true
	}
	js := make([]int, 0, len(idx))
	for j := range idx {
		js = append(js, j)
	}
	sort.Ints(js)
	for _, j := range js {
		t, err := cs.GetPowerTable(bg, m.first+uint64(j))
		if err != nil || !tablesEqual(t, m.tables[j]) {
			bad("GetPowerTable(%d) -> err %v or not the initial table with all earlier deltas applied", m.first+uint64(j), err)
			return
		}
	}
	if _, err := cs.GetPowerTable(bg, m.next()+1); err == nil {
		bad("GetPowerTable(%d) beyond the next instance succeeded", m.next()+1)
	}
}

func (s *c09) compareAll(when string) {
	if s.long {
		s.compareSampled(when)
		return
	}
	got, want := observe(s.cs), s.m.obs()
	if !got.equal(want) {
		s.fail("state_mismatch", "observe", "%s: store shows {%s}, reference model {%s}", when, got, want)
	}
}

func tablesEqual(a, b gpbft.PowerEntries) bool {
	return bytes.Equal(certgen.TableBytes(a), certgen.TableBytes(b))
}

// step performs one random operation and compares with the model.
func (s *c09) step() {
	c, m, cs := s.c, s.m, s.cs
	g := s.gen
	next := m.next()
	cur := m.tables[len(m.tables)-1]
	switch op := c.Pick([]int{30, 6, 4, 4, 5, 3, 3, 3, 2, 8, 8, 10, 4, 5, 5, 6}); op {
	case 0: // valid successor
		nt := g.Evolve(cur)
		cert := g.Cert(next, g.Chain(s.latestHead(), next, 3), cur, nt)
		err, blocked, pv := putTimed(cs, cert)
		s.r.Tracef("Put(%d valid, delta %d) -> %v", next, len(cert.PowerTableDelta), err)
		if blocked {
			s.fail("put_blocked", "subscriber", "Put(%d) did not return within 30s with %d unread subscribers", next, len(s.subs))
			return
		}
		if pv != nil {
			s.fail("put_panicked", "put", "Put(%d) panicked: %v", next, pv)
			return
		}
		if err != nil {
			s.fail("valid_put_rejected", "put", "Put of the immediate successor %d was rejected: %v", next, err)
			return
		}
		m.certs = append(m.certs, cert)
		m.tables = append(m.tables, nt)
		for _, sb := range s.subs {
			sb.pending = cert
		}
		if len(cert.PowerTableDelta) > 0 {
			s.r.Probe("put_with_delta")
		}
		if s.freq > 0 && (next+1)%s.freq == 0 || (next+1)%1440 == 0 {
			s.r.Probe("checkpoint_crossed")
		}
		if l := cs.Latest(); l == nil || l.GPBFTInstance != next {
			s.fail("latest_not_advanced", "latest", "Latest after Put(%d) is %v", next, l)
		}
	case 1: // duplicate / stale with different content
		if len(m.certs) == 0 {
			return
		}
		i := m.first + uint64(c.Intn(len(m.certs)))
		t := m.tables[i-m.first]
		cert := g.Cert(i, g.Chain(s.base, i, 2), t, g.Evolve(t))
		err, blocked, _ := putTimed(cs, cert)
		s.r.Tracef("Put(%d stale) -> %v", i, err)
		if blocked {
			s.fail("put_blocked", "subscriber", "stale Put(%d) did not return", i)
			return
		}
		if err != nil {
			s.fail("stale_put_error", "put", "re-submitting stored instance %d returned %v", i, err)
		}
		s.r.Probe("stale_put")
		got, gerr := cs.Get(bg, i)
		if gerr != nil || !bytes.Equal(certgen.CertBytes(got), certgen.CertBytes(m.certs[i-m.first])) {
			s.fail("stale_put_changed_store", "put", "re-submitting instance %d changed the stored certificate", i)
		}
	case 2: // gap
		i := next + 1 + uint64(c.Intn(3))
		cert := g.Cert(i, g.Chain(s.latestHead(), i, 2), cur, cur)
		err, _, _ := putTimed(cs, cert)
		s.r.Tracef("Put(%d gap) -> %v", i, err)
		if err == nil {
			s.fail("gap_put_accepted", "put", "Put(%d) accepted although the next instance is %d", i, next)
		}
		s.r.Probe("gap_put_refused")
	case 3: // wrong delta / wrong CID
		nt := g.Evolve(cur)
		other := g.Evolve(nt)
		if tablesEqual(other, nt) {
			other = g.InitialTable(2)
		}
		cert := g.Cert(next, g.Chain(s.latestHead(), next, 2), cur, nt)
		if c.Chance(500) {
			cid, _ := certs.MakePowerTableCID(other)
			cert.SupplementalData.PowerTable = cid
		} else {
			cert.PowerTableDelta = certgen.Diff(cur, other)
		}
		err, _, _ := putTimed(cs, cert)
		s.r.Tracef("Put(%d wrong delta) -> %v", next, err)
		if err == nil {
			s.fail("wrong_delta_accepted", "put", "Put(%d) accepted a delta that does not reproduce the committed power table", next)
			m.certs = append(m.certs, cert) // keep the model aligned for the trace
			m.tables = append(m.tables, nt)
		}
		s.r.Probe("wrong_delta_refused")
	case 4: // bottom or malformed chain
		cert := g.Cert(next, g.Chain(s.latestHead(), next, 2), cur, cur)
		if c.Chance(500) {
			cert.ECChain = &gpbft.ECChain{}
		} else {
			h := s.latestHead()
			cert.ECChain = &gpbft.ECChain{TipSets: []*gpbft.TipSet{h, certgen.TipSet(h.Epoch, "same-epoch")}}
		}
		err, _, _ := putTimed(cs, cert)
		s.r.Tracef("Put(%d bad chain) -> %v", next, err)
		if err == nil {
			s.fail("bad_chain_accepted", "put", "Put(%d) accepted an empty or malformed chain", next)
		}
		s.r.Probe("bad_chain_refused")
	case 5: // delta that empties the table
		var empty gpbft.PowerEntries
		cert := g.Cert(next, g.Chain(s.latestHead(), next, 1), cur, cur)
		cert.PowerTableDelta = certgen.Diff(cur, empty)
		cid, _ := certs.MakePowerTableCID(empty)
		cert.SupplementalData.PowerTable = cid
		err, _, _ := putTimed(cs, cert)
		s.r.Tracef("Put(%d emptying) -> %v", next, err)
		if err == nil {
			s.fail("emptying_put_accepted", "put", "Put(%d) accepted a delta that empties the power table", next)
		}
		s.r.Probe("emptying_refused")
	case 6: // below first
		if m.first == 0 {
			return
		}
		i := m.first - 1 - uint64(c.Intn(int(min(m.first, 3))))
		cert := g.Cert(i, g.Chain(s.base, i, 1), cur, cur)
		err, _, _ := putTimed(cs, cert)
		if err == nil {
			s.fail("below_first_accepted", "put", "Put(%d) accepted below the first instance %d", i, m.first)
		}
	case 7: // Latest
		l := cs.Latest()
		if (l == nil) != (len(m.certs) == 0) || (l != nil && l.GPBFTInstance != next-1) {
			s.fail("latest_mismatch", "latest", "Latest() = %v, model has %d certificates from %d", l, len(m.certs), m.first)
		}
	case 8: // full comparison
		s.compareAll("mid-history")
	case 9: // Get
		lo := int64(m.first) - 2
		i := uint64(max(0, lo+int64(c.Intn(len(m.certs)+5))))
		got, err := cs.Get(bg, i)
		if i >= m.first && i < next {
			if err != nil || !bytes.Equal(certgen.CertBytes(got), certgen.CertBytes(m.certs[i-m.first])) {
				s.fail("get_mismatch", "get", "Get(%d) = %v, %v", i, got, err)
			}
		} else if !errors.Is(err, certstore.ErrCertNotFound) {
			s.fail("get_missing_wrong_error", "get", "Get(%d) outside [%d,%d) returned %v", i, m.first, next, err)
		}
	case 10: // GetRange
		lo := int64(m.first) - 1
		a := uint64(max(0, lo+int64(c.Intn(len(m.certs)+3))))
		b := uint64(max(0, lo+int64(c.Intn(len(m.certs)+4))))
		got, err := cs.GetRange(bg, a, b)
		if a > b {
			if err == nil {
				s.fail("range_start_after_end_accepted", "range", "GetRange(%d,%d) returned no error", a, b)
			}
			return
		}
		var want []*certs.FinalityCertificate
		complete := true
		for i := a; i <= b; i++ {
			if i < m.first || i >= next {
				complete = false
				break
			}
			want = append(want, m.certs[i-m.first])
		}
		if len(got) != len(want) || (err == nil) != complete {
			s.fail("range_mismatch", "range", "GetRange(%d,%d) returned %d certificates, err %v; model: %d, complete %v", a, b, len(got), err, len(want), complete)
			return
		}
		for i := range got {
			if !bytes.Equal(certgen.CertBytes(&got[i]), certgen.CertBytes(want[i])) {
				s.fail("range_mismatch", "range", "GetRange(%d,%d)[%d] differs from the stored certificate", a, b, i)
				return
			}
		}
		if !complete && !errors.Is(err, certstore.ErrCertNotFound) {
			s.fail("range_wrong_error", "range", "GetRange(%d,%d) incomplete but error is %v", a, b, err)
		}
	case 11: // GetPowerTable
		lo := int64(m.first) - 1
		i := uint64(max(0, lo+int64(c.Intn(len(m.certs)+4))))
		got, err := cs.GetPowerTable(bg, i)
		if i >= m.first && i <= next {
			if err != nil || !tablesEqual(got, m.tables[i-m.first]) {
				s.fail("power_table_mismatch", "table", "GetPowerTable(%d) = %d entries, %v; model has %d entries (first %d, next %d)", i, len(got), err, len(m.tables[i-m.first]), m.first, next)
			}
		} else if err == nil {
			s.fail("power_table_out_of_range", "table", "GetPowerTable(%d) outside [%d,%d] returned a table", i, m.first, next)
		}
	case 12: // subscribe
		if len(s.subs) >= 4 {
			return
		}
		ch, cl := cs.Subscribe()
		sb := &subscriber{ch: ch, close: cl}
		if n := len(m.certs); n > 0 {
			sb.pending = m.certs[n-1]
		}
		s.subs = append(s.subs, sb)
		s.r.Probe("subscribe")
	case 13: // receive
		if len(s.subs) == 0 {
			return
		}
		sb := s.subs[c.Intn(len(s.subs))]
		select {
		case got := <-sb.ch:
			if sb.pending == nil || got == nil || !bytes.Equal(certgen.CertBytes(got), certgen.CertBytes(sb.pending)) {
				s.fail("subscriber_wrong_cert", "subscribe", "subscriber received %v, expected %v", got, sb.pending)
			}
			s.r.Probe("subscriber_received_latest")
		default:
			if sb.pending != nil {
				s.fail("subscriber_missed_latest", "subscribe", "subscriber channel empty although certificate %d was stored since its last read", sb.pending.GPBFTInstance)
			}
		}
		sb.pending = nil
	case 14: // unsubscribe
		if len(s.subs) == 0 {
			return
		}
		i := c.Intn(len(s.subs))
		s.subs[i].close()
		s.subs = append(s.subs[:i:i], s.subs[i+1:]...)
	case 15:
		s.reopen()
	}
}

func runC09(prop, tier string, c *kernel.Chooser, r *kernel.Recorder) *kernel.Violation {
	e := &env{c: c, r: r, prop: prop, gen: certgen.New(c, false)}
	if c.Chance(800) {
		e.freq = []uint64{2, 3, 4, 5, 6, 8}[c.Intn(6)] // divisors of the real frequency 1440, see DESIGN
	}
	s := &c09{env: e, ds: simds.New(), m: &model{}, base: certgen.TipSet(100, "genesis")}
	steps := 20 + c.Intn(60)
	if tier == "thorough" {
		steps = 40 + c.Intn(300)
	}
	r.Sample["config"] = fmt.Sprintf("freq=%d steps=%d", e.freq, steps)
	for i := 0; !s.m.created && s.viol == nil; i++ {
		if i >= 3 {
			first := s.firstChoice()
			tbl := s.gen.InitialTable(1 + c.Intn(5))
			cs, err := certstore.CreateStore(bg, s.ds, first, tbl)
			if err != nil {
				s.fail("create_failed", "CreateStore", "CreateStore on an empty datastore failed: %v", err)
				break
			}
			s.m.created, s.m.first, s.m.tables, s.initial = true, first, []gpbft.PowerEntries{tbl}, tbl
			s.cs = s.tune(cs)
			break
		}
		s.reopen()
	}
	for i := 0; i < steps && s.viol == nil; i++ {
		if s.cs == nil {
			s.reopen()
			continue
		}
		s.step()
		r.Steps++
	}
	if bulkP := map[string]int{"quick": 25, "thorough": 60}[tier]; s.viol == nil && s.cs != nil && c.Chance(bulkP) {
		n := 1030 + c.Intn(1200)
		if tier == "thorough" && c.Chance(300) {
			n = 4100 + c.Intn(4500)
		}
		s.bulkPhase(n)
	}
	if s.viol == nil && s.cs != nil && c.Chance(450) {
		r.Fault("concurrent_readers_and_writer")
		s.concurrentPhase(2000)
	}
	if s.viol == nil && s.cs != nil {
		s.compareAll("end of history")
		s.dropSubs()
		s.cs = nil
		cs, err := certstore.OpenStore(bg, s.ds)
		if err != nil {
			s.fail("reopen_failed", "OpenStore", "final OpenStore failed: %v", err)
		} else {
			s.cs = s.tune(cs)
			s.compareAll("after final reopen")
		}
	}
	r.Sample["outcome"] = fmt.Sprintf("first=%d certs=%d keys=%d", s.m.first, len(s.m.certs), s.ds.Len())
	return s.viol
}
