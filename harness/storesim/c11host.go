package storesim

import (
	"bytes"
	"fmt"
	"path/filepath"

	"github.com/filecoin-project/go-bitfield"
	f3 "github.com/filecoin-project/go-f3"
	"github.com/filecoin-project/go-f3/gpbft"
	"github.com/filecoin-project/go-f3/zz_verif/certgen"
)

// hostEntries is a short history of the log instantiated with the node's own entry type (a
// pointer-carrying wrapper around *gpbft.GMessage) in a directory of its own: append distinct
// messages, optionally close, optionally tear the last record, reopen, read. Every acknowledged
// message must come back intact and in order.
func (s *c11) hostEntries() {
	c, r := s.c, s.r
	dir := "/walhost"
	s.disk.Fail, s.disk.CrashAt = nil, -1 // no fault left armed by the main history
	w, err := f3.VerifOpenWAL(dir)
	if err != nil {
		s.fail("open_failed", "host", "opening a WAL of host entries failed: %v", err)
		return
	}
	n := 2 + c.Intn(7)
	base := certgen.TipSet(10, "hbase")
	var want [][]byte
	enc := func(m *gpbft.GMessage) []byte {
		var b bytes.Buffer
		if err := m.MarshalCBOR(&b); err != nil {
			return nil
		}
		return b.Bytes()
	}
	sizeBeforeLast := 0
	lastFile := ""
	for i := 0; i < n; i++ {
		ts := []*gpbft.TipSet{base}
		for d := 0; d < c.Intn(3); d++ {
			ts = append(ts, certgen.TipSet(int64(11+d), fmt.Sprintf("h%d-%d", i, d)))
		}
		m := &gpbft.GMessage{Sender: gpbft.ActorID(1 + c.Intn(5)),
			Vote:      gpbft.Payload{Instance: uint64(i / 2), Round: uint64(c.Intn(3)), Phase: gpbft.Phase(1 + c.Intn(5)), Value: &gpbft.ECChain{TipSets: ts}, SupplementalData: gpbft.SupplementalData{PowerTable: gpbft.MakeCid([]byte("hpt"))}},
			Signature: []byte(fmt.Sprintf("host-sig-%d-%d", i, c.Intn(1000)))}
		if c.Chance(400) {
			m.Ticket = []byte(fmt.Sprintf("ticket-%d", i))
		}
		if c.Chance(400) {
			m.Justification = &gpbft.Justification{Vote: gpbft.Payload{Instance: uint64(i / 2), Phase: gpbft.PREPARE_PHASE, Value: &gpbft.ECChain{TipSets: ts}, SupplementalData: m.Vote.SupplementalData}, Signature: []byte(fmt.Sprintf("agg-%d", i))}
			m.Justification.Signers = bitfield.NewFromSet([]uint64{uint64(c.Intn(4))})
		}
		if i == n-1 {
			for _, name := range s.disk.Names(dir) {
				b, _ := s.disk.Content(filepath.Join(dir, name))
				sizeBeforeLast, lastFile = len(b), name
			}
		}
		if err := w.Append(m); err != nil {
			s.fail("append_failed", "host", "appending a host entry failed without any injected fault: %v", err)
			return
		}
		want = append(want, enc(m))
	}
	if c.Chance(500) {
		_ = w.Close()
	}
	when := fmt.Sprintf("host entries (%d appended)", n)
	if names := s.disk.Names(dir); len(names) == 1 && names[0] == lastFile && c.Chance(500) {
		// the last append is cut off somewhere inside its record: it counts as not acknowledged
		path := filepath.Join(dir, lastFile)
		full, _ := s.disk.Content(path)
		if len(full) > sizeBeforeLast+1 {
			cut := sizeBeforeLast + 1 + c.Intn(len(full)-sizeBeforeLast-1)
			s.disk.SetContent(path, append([]byte(nil), full[:cut]...))
			want = want[:len(want)-1]
			r.Fault("host_entry_torn")
			when += fmt.Sprintf(", last record cut after %d of %d bytes", cut-sizeBeforeLast, len(full)-sizeBeforeLast)
		}
	}
	r.Probe("host_entry_history")
	w2, err := f3.VerifOpenWAL(dir)
	if err != nil {
		s.fail("open_failed", "host_reopen", "%s: reopening failed: %v", when, err)
		return
	}
	got, err := w2.All()
	if err != nil {
		s.fail("read_failed", "host", "%s: reading failed: %v", when, err)
		return
	}
	if len(got) < len(want) {
		s.fail("acknowledged_entry_lost", "host", "%s: %d messages returned, %d were acknowledged", when, len(got), len(want))
		return
	}
	if len(got) > len(want)+1 {
		s.fail("fabricated_entry", "host", "%s: %d messages returned, only %d were appended", when, len(got), len(want))
		return
	}
	for i := range want {
		if got[i] == nil || !bytes.Equal(enc(got[i]), want[i]) {
			s.fail("altered_entry", "host", "%s: message %d of %d was returned altered", when, i, len(want))
			return
		}
	}
}
