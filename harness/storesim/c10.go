package storesim

import (
	"fmt"
	"strings"

	"github.com/filecoin-project/go-f3/certs"
	"github.com/filecoin-project/go-f3/certstore"
	"github.com/filecoin-project/go-f3/gpbft"
	"github.com/filecoin-project/go-f3/zz_verif/certgen"
	"github.com/filecoin-project/go-f3/zz_verif/kernel"
	"github.com/filecoin-project/go-f3/zz_verif/simds"
)

// C10: crash after every individual datastore write of every create / put / wipe.

type c10 struct {
	*env
	first   uint64
	initial gpbft.PowerEntries
}

// openObs opens the datastore with OpenStore and returns what is observable.
func (s *c10) openObs(d *simds.DS, what string) (*certstore.Store, *obs) {
	cs, err := certstore.OpenStore(bg, d)
	if isNotInit(err) {
		return nil, &obs{}
	}
	if err != nil {
		return nil, &obs{Err: "open: " + err.Error()}
	}
	s.tune(cs)
	return cs, observe(cs)
}

func (s *c10) namespaceKeys(d *simds.DS) []string {
	var ks []string
	for _, k := range d.Keys() {
		if strings.HasPrefix(k, "/certstore/") {
			ks = append(ks, k)
		}
	}
	return ks
}

// enumerate runs op on clones of pre with a crash after j = 0..W writes.
// op receives a freshly opened store on the clone (nil for create operations).
func (s *c10) enumerate(name string, pre *simds.DS, needStore bool, op func(d *simds.DS, cs *certstore.Store) error, before, after *obs, wipe bool) {
	// counting run
	cnt := pre.Clone()
	var cs *certstore.Store
	if needStore {
		cs, _ = s.openObs(cnt, name)
		if cs == nil {
			kernel.Infra("%s: cannot open pre-state", name)
		}
	}
	base := cnt.Writes
	if err := op(cnt, cs); err != nil {
		s.fail("op_failed_without_fault", name, "%s failed without any fault: %v", name, err)
		return
	}
	W := cnt.Writes - base
	s.r.Tracef("%s: %d datastore writes", name, W)
	for j := 0; j <= W && s.viol == nil; j++ {
		d := pre.Clone()
		d.Rotate = pre.Rotate
		var cs *certstore.Store
		if needStore {
			cs, _ = s.openObs(d, name)
		}
		d.CrashAfter = d.Writes + j
		stopped := crashed(func() { _ = op(d, cs) })
		d.CrashAfter = -1
		if stopped {
			s.r.Fault("crash_" + name)
		} else if j < W {
			s.fail("crash_point_not_reached", name, "%s: crash after %d of %d writes did not fire", name, j, W)
			return
		}
		s.r.Steps++
		// reopen
		d.Rotate = s.c.Intn(5)
		_, got := s.openObs(d, name)
		ctx := fmt.Sprintf("%s interrupted after %d of %d datastore writes", name, j, W)
		s.r.Tracef("%s -> reopen shows {%s}", ctx, got)
		if wipe {
			if j == 0 {
				if !got.equal(before) {
					s.fail("crash_state_invalid", name, "%s: reopened store shows {%s}, expected the state before {%s}", ctx, got, before)
				}
			} else {
				// the wipe must be completed on reopen
				if got.Init || got.Err != "" {
					s.fail("interrupted_wipe_not_completed", name, "%s: reopening shows {%s}; expected an uninitialised store", ctx, got)
				} else if ks := s.namespaceKeys(d); len(ks) > 0 {
					s.fail("interrupted_wipe_left_keys", name, "%s: after reopening, %d keys remain in the store namespace (e.g. %s)", ctx, len(ks), ks[0])
				}
				if j < W {
					s.r.Probe("wipe_interrupted")
				}
			}
		} else if !got.equal(before) && !got.equal(after) {
			s.fail("crash_state_invalid", name, "%s: reopened store shows {%s}, which is neither the state before {%s} nor after {%s}", ctx, got, before, after)
		}
		if s.viol != nil {
			return
		}
		if !stopped {
			continue // the operation completed; nothing to repeat
		}
		// the interrupted operation can be repeated successfully
		var cs2 *certstore.Store
		if needStore && !wipe {
			cs2, _ = s.openObs(d, name)
			if cs2 == nil {
				s.fail("crash_state_invalid", name, "%s: store cannot be opened to repeat the operation", ctx)
				return
			}
		}
		if wipe {
			if j == 0 {
				cs2, _ = s.openObs(d, name)
			} else {
				continue // nothing left to wipe; re-creation is checked by the caller's next create
			}
		}
		if err := op(d, cs2); err != nil {
			s.fail("repeat_failed", name, "%s: repeating the operation failed: %v", ctx, err)
			return
		}
		_, got2 := s.openObs(d, name)
		if !got2.equal(after) {
			s.fail("repeat_wrong_state", name, "%s: after repeating the operation the store shows {%s}, expected {%s}", ctx, got2, after)
			return
		}
		// the other open variants agree
		if after.Init {
			cs3, err := certstore.OpenOrCreateStore(bg, d, s.first, s.initial)
			if err != nil {
				s.fail("reopen_failed", "OpenOrCreateStore", "%s: OpenOrCreateStore after repeat failed: %v", ctx, err)
				return
			}
			if o := observe(s.tune(cs3)); !o.equal(after) {
				s.fail("repeat_wrong_state", name, "%s: OpenOrCreateStore view {%s} differs from {%s}", ctx, o, after)
			}
		}
	}
}

func runC10(prop, tier string, c *kernel.Chooser, r *kernel.Recorder) *kernel.Violation {
	e := &env{c: c, r: r, prop: prop, gen: certgen.New(c, false)}
	if c.Chance(800) {
		e.freq = uint64(2 + c.Intn(4))
	}
	s := &c10{env: e}
	g := e.gen
	ds := simds.New()
	ds.Rotate = c.Intn(5)
	// foreign keys outside the store's namespace must survive everything
	if c.Chance(300) {
		ds.SetRaw("/other/key", []byte("foreign"))
	}
	s.first = uint64(c.Intn(12))
	if e.freq == 0 {
		s.first = 1440 - uint64(1+c.Intn(3))
	}
	s.initial = g.InitialTable(1 + c.Intn(4))
	m := &model{}
	nputs := 1 + c.Intn(6)
	if tier == "thorough" {
		nputs = 2 + c.Intn(14)
	}
	r.Sample["config"] = fmt.Sprintf("freq=%d first=%d puts=%d", e.freq, s.first, nputs)

	// ---- create
	createVariant := c.Intn(2)
	create := func(d *simds.DS, _ *certstore.Store) error {
		var err error
		if createVariant == 0 {
			_, err = certstore.CreateStore(bg, d, s.first, s.initial)
		} else {
			_, err = certstore.OpenOrCreateStore(bg, d, s.first, s.initial)
		}
		return err
	}
	m2 := &model{created: true, first: s.first, tables: []gpbft.PowerEntries{s.initial}}
	s.enumerate("create", ds, false, create, m.obs(), m2.obs(), false)
	if s.viol != nil {
		return s.viol
	}
	if err := create(ds, nil); err != nil {
		kernel.Infra("create: %v", err)
	}
	m = m2
	base := certgen.TipSet(100, "genesis")

	// ---- puts
	for i := 0; i < nputs && s.viol == nil; i++ {
		next := m.next()
		cur := m.tables[len(m.tables)-1]
		nt := g.Evolve(cur)
		head := base
		if n := len(m.certs); n > 0 {
			head = m.certs[n-1].ECChain.Head()
		}
		cert := g.Cert(next, g.Chain(head, next, 2), cur, nt)
		put := func(d *simds.DS, cs *certstore.Store) error { return cs.Put(bg, cert) }
		after := m.clone()
		after.certs = append(after.certs, cert)
		after.tables = append(after.tables, nt)
		// enumerate crash points only for a chooser-selected subset of the puts in long histories,
		// always for the first, the last and checkpoint-writing ones
		chk := (e.freq > 0 && (next+1)%e.freq == 0) || (next+1)%1440 == 0
		if i == 0 || i == nputs-1 || chk || c.Chance(500) {
			if chk {
				r.Probe("crash_in_checkpoint_put")
			}
			s.enumerate("put", ds, true, put, m.obs(), after.obs(), false)
			if s.viol != nil {
				return s.viol
			}
		}
		cs, _ := s.openObs(ds, "put")
		if cs == nil {
			kernel.Infra("cannot open store for put")
		}
		if err := cs.Put(bg, cert); err != nil {
			s.fail("valid_put_rejected", "put", "Put(%d) rejected: %v", next, err)
			return s.viol
		}
		m = after
	}
	_ = certs.FinalityCertificate{}

	// ---- wipe
	if s.viol == nil {
		wipe := func(d *simds.DS, cs *certstore.Store) error { return cs.DeleteAll(bg) }
		s.enumerate("wipe", ds, true, wipe, m.obs(), (&model{}).obs(), true)
	}
	if s.viol == nil && ds.Len() > 0 {
		if _, ok := ds.Raw("/other/key"); ok {
			r.Probe("foreign_key_present")
		}
	}
	r.Sample["outcome"] = fmt.Sprintf("certs=%d", len(m.certs))
	return s.viol
}
