package storesim

import (
	"bytes"
	"context"
	"fmt"
	"time"

	f3 "github.com/filecoin-project/go-f3"
	"github.com/filecoin-project/go-f3/certstore"
	"github.com/filecoin-project/go-f3/gpbft"
	"github.com/filecoin-project/go-f3/manifest"
	"github.com/filecoin-project/go-f3/sim/signing"
	"github.com/filecoin-project/go-f3/zz_verif/certgen"
	"github.com/filecoin-project/go-f3/zz_verif/ecworld"
	"github.com/filecoin-project/go-f3/zz_verif/kernel"
	"github.com/filecoin-project/go-f3/zz_verif/simds"
	"github.com/filecoin-project/go-f3/zz_verif/simos"
	"github.com/filecoin-project/go-f3/zz_verif/simtime"
	"github.com/libp2p/go-libp2p"
	pubsub "github.com/libp2p/go-libp2p-pubsub"
	"github.com/libp2p/go-libp2p/core/host"
)

// C12: a node never self-equivocates on the wire, across requests and restarts.

var sharedHost host.Host // one libp2p host (no listeners, no peers) per worker process

type wireSlot struct {
	K      uint64
	Sender gpbft.ActorID
	Round  uint64
	Phase  gpbft.Phase
}

type publishCrash struct{}

type c12 struct {
	*env
	disk      *simos.Disk
	cs        *certstore.Store
	ec        *ecworld.World
	m         manifest.Manifest
	sig       *signing.FakeBackend
	runner    *f3.VerifRunner
	cancel    context.CancelFunc
	wire      map[wireSlot][]byte
	maxInst   uint64
	anyOnWire bool
	incarn    int
	crashAfterPublish bool
	published int
	hist      *certgen.History
	gen       *certgen.Gen
	finalized chan struct{}
}

func (s *c12) onPublish(data []byte) {
	pm, err := s.runner.DecodeWire(data)
	if err != nil {
		kernel.Infra("cannot decode own wire message: %v", err)
	}
	s.published++
	sl := wireSlot{pm.Vote.Instance, pm.Sender, pm.Vote.Round, pm.Vote.Phase}
	s.r.Tracef("wire inc=%d k=%d sender=%d r=%d %s sig=%x", s.incarn, sl.K, sl.Sender, sl.Round, sl.Phase, pm.Signature[:min(4, len(pm.Signature))])
	if prev, ok := s.wire[sl]; ok && !bytes.Equal(prev, pm.Signature) {
		s.fail("self_equivocation_on_wire", "slot", "two differently signed messages were published for instance %d sender %d round %d %s (incarnation %d)", sl.K, sl.Sender, sl.Round, sl.Phase, s.incarn)
	} else if !ok {
		s.wire[sl] = append([]byte(nil), pm.Signature...)
	}
	if s.anyOnWire && sl.K < s.maxInst {
		s.fail("old_instance_on_wire", "instance", "a message for instance %d was published after a message for instance %d (incarnation %d)", sl.K, s.maxInst, s.incarn)
	}
	if sl.K > s.maxInst || !s.anyOnWire {
		s.maxInst = sl.K
	}
	s.anyOnWire = true
	if s.crashAfterPublish {
		s.crashAfterPublish = false
		panic(publishCrash{})
	}
}

// start creates a new incarnation: fresh pubsub, WAL reopened, runner re-armed from the WAL.
func (s *c12) start() {
	if s.cancel != nil {
		s.cancel()
	}
	ctx, cancel := context.WithCancel(context.Background())
	s.cancel = cancel
	s.incarn++
	ps, err := pubsub.NewGossipSub(ctx, sharedHost)
	if err != nil {
		kernel.Infra("pubsub: %v", err)
	}
	m := s.m
	m.NetworkName = gpbft.NetworkName(fmt.Sprintf("verif-%d-%d", s.r.Lines(), s.incarn)) // fresh topic per incarnation
	r, err := f3.VerifOpenRunner(ctx, "/wal", s.cs, s.ec, ps, s.sig, m, sharedHost.ID(), func(data []byte) { s.onPublish(data) })
	if err != nil {
		s.fail("restart_failed", "open", "restarting the runner failed: %v", err)
		return
	}
	s.runner = r
}

// lifecycle is one whole process lifetime with the runner's real Start and Stop (no broadcast
// request arrives during it): the certificates the network produced meanwhile, all for instances
// before the one the node is in, are in the store, so that the finalize loop of host.go finalizes
// the latest one and purges the WAL with the bound it computes. A normal incarnation follows.
func (s *c12) lifecycle(inst uint64) {
	target := uint64(1)
	if inst > 2 {
		target = 1 + uint64(s.c.Intn(int(inst)-1)) // 1..inst-1
	}
	for uint64(len(s.hist.Certs)) <= target {
		cert := s.gen.Extend(s.hist, 2)
		if err := s.cs.Put(bg, cert); err != nil {
			kernel.Infra("certstore.Put of a generated certificate: %v", err)
		}
	}
	latest := s.cs.Latest().GPBFTInstance
	if latest >= inst {
		return
	}
	if s.cancel != nil {
		s.cancel()
	}
	for len(s.finalized) > 0 {
		<-s.finalized
	}
	ctx, cancel := context.WithCancel(context.Background())
	s.cancel = cancel
	s.incarn++
	ps, err := pubsub.NewGossipSub(ctx, sharedHost)
	if err != nil {
		kernel.Infra("pubsub: %v", err)
	}
	m := s.m
	m.NetworkName = gpbft.NetworkName(fmt.Sprintf("verif-%d-%d", s.r.Lines(), s.incarn))
	s.r.Tracef("lifecycle inc=%d latest_cert=%d node_instance=%d", s.incarn, latest, inst)
	s.r.Fault("restart_with_start_stop")
	s.disk.CrashAt = -1
	if err := f3.VerifLifecycle(ctx, "/wal", s.cs, s.ec, ps, s.sig, m, sharedHost.ID(), s.finalized, 20*time.Second); err != nil {
		kernel.Infra("runner lifecycle: %v", err)
	}
	s.start()
}

func runC12(prop, tier string, c *kernel.Chooser, r *kernel.Recorder) *kernel.Violation {
	if sharedHost == nil {
		h, err := libp2p.New(libp2p.NoListenAddrs)
		if err != nil {
			kernel.Infra("libp2p host: %v", err)
		}
		sharedHost = h
	}
	e := &env{c: c, r: r, prop: prop}
	s := &c12{env: e, disk: simos.NewDisk(), wire: map[wireSlot][]byte{}, sig: signing.NewFakeBackend()}
	simos.Use(s.disk)
	simtime.Clock = time.Date(2024, 1, 1, 0, 0, 0, 0, time.UTC)
	s.disk.PartialOnCrash = func(n int) int { return c.Intn(n + 1) }
	s.disk.Trace = func(l string) { r.Tracef("fs %s", l) }
	g := certgen.New(c, false)
	s.gen = g
	s.hist = g.NewHistory(0, 0, 3, 2)
	tbl := s.hist.Tables[0]
	var err error
	s.cs, err = certstore.CreateStore(bg, simds.New(), 0, tbl)
	if err != nil {
		kernel.Infra("CreateStore: %v", err)
	}
	s.ec = ecworld.New(time.Date(2024, 1, 1, 0, 0, 0, 0, time.UTC), 30*time.Second, tbl)
	s.finalized = make(chan struct{}, 64)
	s.ec.Fail = func(method string) error {
		if method == "Finalize" {
			s.finalized <- struct{}{}
		}
		return nil
	}
	s.m = manifest.LocalDevnetManifest()
	s.m.EC.Finalize = true
	s.m.PubSub.CompressionEnabled = c.Chance(300)
	s.start()
	if s.viol != nil {
		return s.viol
	}
	senders := []gpbft.ActorID{1, 2}
	if c.Chance(500) {
		senders = senders[:1]
	}
	base := certgen.TipSet(10, "base")
	inst := uint64(c.Intn(3))
	steps := 10 + c.Intn(40)
	if tier == "thorough" {
		steps = 30 + c.Intn(120)
	}
	r.Sample["config"] = fmt.Sprintf("steps=%d senders=%d compression=%v start_instance=%d", steps, len(senders), s.m.PubSub.CompressionEnabled, inst)
	r.Tracef("config %s", r.Sample["config"])
	mk := func(k uint64, sender gpbft.ActorID, round uint64, ph gpbft.Phase, variant int) *gpbft.GMessage {
		ch := &gpbft.ECChain{TipSets: []*gpbft.TipSet{base, certgen.TipSet(11, fmt.Sprintf("v%d", variant))}}
		if variant == 0 && (ph == gpbft.PREPARE_PHASE || ph == gpbft.COMMIT_PHASE) {
			ch = &gpbft.ECChain{}
		}
		p := gpbft.Payload{Instance: k, Round: round, Phase: ph, Value: ch, SupplementalData: gpbft.SupplementalData{PowerTable: gpbft.MakeCid([]byte("pt"))}}
		sigb := []byte(fmt.Sprintf("sig-%d-%d-%d-%d-%d", k, sender, round, ph, variant))
		return &gpbft.GMessage{Sender: sender, Vote: p, Signature: sigb}
	}
	phases := []gpbft.Phase{gpbft.QUALITY_PHASE, gpbft.CONVERGE_PHASE, gpbft.PREPARE_PHASE, gpbft.COMMIT_PHASE, gpbft.DECIDE_PHASE}
	for i := 0; i < steps && s.viol == nil; i++ {
		r.Steps++
		simtime.Clock = simtime.Clock.Add(time.Duration(1+c.Intn(3000)) * time.Millisecond)
		// the instance the node is in moves forward, sometimes a restart re-enters an older one
		switch c.Pick([]int{70, 20, 10}) {
		case 1:
			inst++
		case 2:
			if inst > 0 && c.Chance(500) {
				inst--
				r.Probe("request_for_older_instance")
			}
		}
		op := c.Pick([]int{60, 15, 10, 15, 8})
		if op == 4 {
			if inst >= 2 {
				s.lifecycle(inst)
			}
			continue
		}
		crashed := false
		var p any
		func() {
			defer func() {
				if p = recover(); p != nil {
					switch p.(type) {
					case simos.Crash, publishCrash:
						crashed = true
						p = nil
					}
				}
			}()
			switch op {
			case 0, 3: // broadcast request (op 3: deliberately conflicting with an earlier slot)
				sender := senders[c.Intn(len(senders))]
				round := uint64(c.Intn(3))
				ph := phases[c.Intn(len(phases))]
				variant := c.Intn(3)
				msg := mk(inst, sender, round, ph, variant)
				switch c.Pick([]int{75, 15, 10}) {
				case 1:
					s.disk.CrashAt = s.disk.Calls + c.Intn(5)
					r.Fault("crash_armed_in_wal")
				case 2:
					s.crashAfterPublish = true
					r.Fault("crash_armed_after_publish")
				}
				r.Tracef("request k=%d sender=%d r=%d %s variant=%d", inst, sender, round, ph, variant)
				if err := s.runner.Broadcast(bg, msg); err != nil {
					kernel.Infra("BroadcastMessage failed without any injected fault: %v", err)
				}
				s.disk.CrashAt = -1
				s.crashAfterPublish = false
			case 1: // rebroadcast request
				in := gpbft.Instant{ID: inst, Round: uint64(c.Intn(3)), Phase: phases[c.Intn(len(phases))]}
				if c.Chance(200) && inst > 0 {
					in.ID = inst - 1
				}
				r.Tracef("rebroadcast k=%d r=%d %s", in.ID, in.Round, in.Phase)
				_ = s.runner.Rebroadcast(in)
				r.Probe("rebroadcast_request")
			case 2: // purge like the finalize loop (never above what is already on the wire)
				if s.maxInst > 0 {
					k := uint64(c.Intn(int(s.maxInst) + 1))
					r.Tracef("purge %d", k)
					_ = s.runner.PurgeWAL(k)
					r.Probe("wal_purge")
				}
			}
		}()
		if p != nil {
			panic(p)
		}
		if crashed || c.Chance(80) {
			if crashed {
				r.Fault("crash")
				s.disk.Recover(
					func(p string, n int) int { return c.Intn(n + 1) },
					nil,
					func(p string) bool { return c.Chance(500) })
			} else {
				r.Fault("clean_restart")
			}
			s.disk.CrashAt = -1
			s.start()
			if c.Chance(400) && inst > 0 {
				// the restarted node may re-enter an instance it already broadcast for, with a different head
				r.Probe("restart_reenters_instance")
			}
		}
	}
	if s.cancel != nil {
		s.cancel()
	}
	r.Sample["outcome"] = fmt.Sprintf("published=%d incarnations=%d slots=%d", s.published, s.incarn, len(s.wire))
	if s.published == 0 && steps > 20 {
		r.Probe("nothing_published")
	}
	return s.viol
}
