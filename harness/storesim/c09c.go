package storesim

import (
	"bytes"
	"errors"
	"fmt"
	"time"

	"github.com/filecoin-project/go-f3/certs"
	"github.com/filecoin-project/go-f3/certstore"
	"github.com/filecoin-project/go-f3/gpbft"
	"github.com/filecoin-project/go-f3/zz_verif/certgen"
)

// C09, concurrent readers and writers. One writer task and two reader tasks run on goroutines of
// their own, but only one of them runs at any time: every task parks in the datastore gate before
// each datastore operation and the seeded scheduler (the main goroutine) decides who proceeds. The
// store's write lock is held by Put across its datastore operations, so an operation that takes
// the lock (Put, Latest, GetPowerTable's snapshot) is only *started* while the writer is not inside
// a Put; tasks already past their lock (parked at a datastore read) interleave freely with it.

type ctask struct {
	name   string
	resume chan struct{}
	ops    chan func()
	inOp   bool
	parked bool
	check  func() // evaluates the operation that just completed
	left   int
}

type cevt struct {
	t    *ctask
	done bool
}

func (s *c09) concurrentPhase(budget int) {
	c, m, cs := s.c, s.m, s.cs
	g := s.gen
	ev := make(chan cevt)
	var cur *ctask
	draining := false
	s.ds.Gate = func(op, key string) {
		if draining {
			return
		}
		t := cur
		ev <- cevt{t, false}
		<-t.resume
	}
	mk := func(name string, n int) *ctask {
		t := &ctask{name: name, resume: make(chan struct{}), ops: make(chan func()), left: n}
		go func() {
			for f := range t.ops {
				f()
				ev <- cevt{t, true}
			}
		}()
		return t
	}
	w := mk("writer", 2+c.Intn(6))
	readers := []*ctask{mk("reader1", 2+c.Intn(8)), mk("reader2", c.Intn(6))}
	tasks := append([]*ctask{w}, readers...)
	defer func() {
		// let whatever is still in flight run to completion unscheduled (nothing is checked any more)
		draining = true
		for _, t := range tasks {
			if t.parked {
				t.parked = false
				t.resume <- struct{}{}
			}
		}
		deadline := time.After(5 * time.Second)
		for _, t := range tasks {
			for t.inOp {
				select {
				case e := <-ev:
					if e.done {
						e.t.inOp = false
					}
				case <-deadline:
					return // a task is stuck for good (already reported); its goroutine is abandoned
				}
			}
		}
		for _, t := range tasks {
			close(t.ops)
		}
		s.ds.Gate = nil
	}()

	// model of what is in flight
	var pendingCert *certs.FinalityCertificate
	var pendingTable gpbft.PowerEntries
	started := len(m.certs) // number of valid certificates whose Put has started (monotone)
	certAt := func(j int) *certs.FinalityCertificate {
		if j < len(m.certs) {
			return m.certs[j]
		}
		if j == len(m.certs) && pendingCert != nil {
			return pendingCert
		}
		return nil
	}
	tableAt := func(j int) gpbft.PowerEntries {
		if j < len(m.tables) {
			return m.tables[j]
		}
		if j == len(m.tables) && pendingTable != nil {
			return pendingTable
		}
		return nil
	}

	// wait returns when the task that was just started or resumed has parked or completed. If
	// nothing happens for a while the task is waiting for a lock held by a parked task (an
	// implementation is free to take the store's lock in any reader): the phase then falls back to
	// letting everything in flight run freely — the bounds checked per operation hold for any
	// interleaving — and ends. Only if the operations do not complete even then is something
	// blocked for good (a writer stuck behind an unread subscriber).
	wait := func() bool {
		handle := func(e cevt) {
			if e.done {
				e.t.inOp, e.t.parked = false, false
				if e.t.check != nil {
					e.t.check()
					e.t.check = nil
				}
			} else {
				e.t.parked = true
			}
		}
		select {
		case e := <-ev:
			handle(e)
			return true
		case <-time.After(3 * time.Second):
		}
		s.r.Probe("concurrent_lock_wait_fallback")
		draining = true
		for _, t := range tasks {
			if t.parked {
				t.parked = false
				t.resume <- struct{}{}
			}
		}
		deadline := time.After(30 * time.Second)
		for _, t := range tasks {
			for t.inOp {
				select {
				case e := <-ev:
					handle(e)
				case <-deadline:
					s.fail("put_blocked", "concurrent", "operations of %s did not complete within 30s although nothing was held back any more (unread subscribers: %d)", t.name, len(s.subs))
					return false
				}
			}
		}
		return false
	}

	startWriter := func() func() {
		next := m.next()
		curT := m.tables[len(m.tables)-1]
		switch c.Pick([]int{75, 12, 13}) {
		case 0:
			nt := g.Evolve(curT)
			cert := g.Cert(next, g.Chain(s.latestHead(), next, 3), curT, nt)
			pendingCert, pendingTable = cert, nt
			started++
			var err error
			s.r.Tracef("c: writer starts Put(%d)", next)
			w.check = func() {
				s.r.Tracef("c: writer Put(%d) -> %v", next, err)
				if err != nil {
					s.fail("valid_put_rejected", "concurrent", "Put of the immediate successor %d was rejected while readers were active: %v", next, err)
					return
				}
				m.certs = append(m.certs, cert)
				m.tables = append(m.tables, nt)
				pendingCert, pendingTable = nil, nil
				for _, sb := range s.subs {
					sb.pending = cert
				}
				if s.freq > 0 && (next+1)%s.freq == 0 {
					s.r.Probe("concurrent_checkpoint_crossed")
				}
			}
			return func() { err = cs.Put(bg, cert) }
		case 1: // stale duplicate with different content: nothing may change
			if len(m.certs) == 0 {
				return nil
			}
			j := c.Intn(len(m.certs))
			inst := m.first + uint64(j)
			dup := g.Cert(inst, g.Chain(s.base, inst, 2), m.tables[j], g.Evolve(m.tables[j]))
			var err error
			w.check = func() {
				s.r.Tracef("c: writer Put(stale %d) -> %v", inst, err)
				if err != nil {
					s.fail("stale_put_error", "concurrent", "Put of the already stored instance %d returned %v", inst, err)
				}
			}
			return func() { err = cs.Put(bg, dup) }
		default: // gap
			inst := next + 1 + uint64(c.Intn(3))
			gap := g.Cert(inst, g.Chain(s.latestHead(), inst, 2), curT, curT)
			var err error
			w.check = func() {
				s.r.Tracef("c: writer Put(gap %d) -> %v", inst, err)
				if err == nil {
					s.fail("gap_accepted", "concurrent", "Put(%d) was accepted although the next instance is %d", inst, next)
				}
			}
			return func() { err = cs.Put(bg, gap) }
		}
	}

	startReader := func(t *ctask, lockFree bool) func() {
		lo := len(m.certs) // certificates committed when the operation starts
		first := m.first
		hi := func() int { return started }
		kinds := []int{30, 35, 25, 10}
		if lockFree {
			kinds = []int{45, 55, 0, 0}
		}
		switch c.Pick(kinds) {
		case 0: // Get
			j := c.Intn(lo + 3)
			inst := first + uint64(j)
			var got *certs.FinalityCertificate
			var err error
			t.check = func() {
				s.r.Tracef("c: %s Get(%d) -> %v", t.name, inst, err)
				switch {
				case err == nil && (certAt(j) == nil || !bytes.Equal(certgen.CertBytes(got), certgen.CertBytes(certAt(j)))):
					s.fail("concurrent_read_wrong", "get", "Get(%d) concurrent with the writer returned a certificate that was never put at that instance", inst)
				case err != nil && j < lo:
					s.fail("concurrent_read_lost", "get", "Get(%d) failed (%v) although the certificate was stored before the read began", inst, err)
				case err == nil && j >= hi():
					s.fail("concurrent_read_wrong", "get_future", "Get(%d) succeeded although no Put for that instance had started", inst)
				}
			}
			return func() { got, err = cs.Get(bg, inst) }
		case 1: // GetRange
			if lo == 0 && started == 0 {
				return nil
			}
			a := c.Intn(lo + 1)
			b := a + c.Intn(lo-a+3)
			var got []certs.FinalityCertificate
			var err error
			t.check = func() {
				s.r.Tracef("c: %s GetRange(%d,%d) -> %d certs, %v", t.name, first+uint64(a), first+uint64(b), len(got), err)
				for i := range got {
					want := certAt(a + i)
					if want == nil || !bytes.Equal(certgen.CertBytes(&got[i]), certgen.CertBytes(want)) {
						s.fail("concurrent_read_wrong", "range", "GetRange(%d,%d) concurrent with the writer: element %d is not the certificate of instance %d", first+uint64(a), first+uint64(b), i, first+uint64(a+i))
						return
					}
				}
				mustHave := min(b, lo-1) - a + 1
				if len(got) < mustHave {
					s.fail("concurrent_read_lost", "range", "GetRange(%d,%d) returned %d certificates although %d of them were stored before the read began", first+uint64(a), first+uint64(b), len(got), mustHave)
					return
				}
				if a+len(got) > hi() {
					s.fail("concurrent_read_wrong", "range_future", "GetRange returned %d certificates from %d although only %d Puts had started", len(got), first+uint64(a), hi())
					return
				}
				full := len(got) == b-a+1
				if full && err != nil {
					s.fail("concurrent_read_wrong", "range_err", "GetRange returned the full range together with error %v", err)
				} else if !full && !errors.Is(err, certstore.ErrCertNotFound) {
					s.fail("concurrent_read_wrong", "range_err", "GetRange returned %d of %d certificates with error %v (want ErrCertNotFound)", len(got), b-a+1, err)
				}
			}
			return func() { got, err = cs.GetRange(bg, first+uint64(a), first+uint64(b)) }
		case 2: // GetPowerTable (takes its snapshot under the read lock, then reads lock-free)
			j := c.Intn(lo + 3)
			inst := first + uint64(j)
			var got gpbft.PowerEntries
			var err error
			s.r.Probe("concurrent_power_table_query")
			t.check = func() {
				s.r.Tracef("c: %s GetPowerTable(%d) -> %d entries, %v", t.name, inst, len(got), err)
				switch {
				case err != nil && j <= lo:
					s.fail("concurrent_read_lost", "table", "GetPowerTable(%d) failed (%v) although the store's next instance was %d when the query began", inst, err, first+uint64(lo))
				case err == nil && j > hi():
					s.fail("concurrent_read_wrong", "table_future", "GetPowerTable(%d) succeeded although the store's next instance can be at most %d", inst, first+uint64(hi()))
				case err == nil && (tableAt(j) == nil || !tablesEqual(got, tableAt(j))):
					s.fail("concurrent_read_wrong", "table", "GetPowerTable(%d) concurrent with the writer returned a table that is not the initial table with the deltas of all earlier instances applied", inst)
				}
			}
			return func() { got, err = cs.GetPowerTable(bg, inst) }
		default: // Latest
			var got *certs.FinalityCertificate
			t.check = func() {
				var want *certs.FinalityCertificate
				if lo > 0 {
					want = m.certs[lo-1]
				}
				if (got == nil) != (want == nil) || got != nil && !bytes.Equal(certgen.CertBytes(got), certgen.CertBytes(want)) {
					s.fail("concurrent_read_wrong", "latest", "Latest is not the last certificate whose Put completed")
				}
			}
			return func() { got = cs.Latest() }
		}
	}

	interleaved := 0
	for n := 0; n < budget && s.viol == nil; n++ {
		type choice struct {
			t     *ctask
			start bool
		}
		var el []choice
		for _, t := range tasks {
			switch {
			case t.parked:
				el = append(el, choice{t, false})
			case !t.inOp && t.left > 0:
				el = append(el, choice{t, true})
			}
		}
		if len(el) == 0 {
			break
		}
		ch := el[c.Intn(len(el))]
		cur = ch.t
		if !ch.start {
			ch.t.parked = false
			s.r.Tracef("c: resume %s", ch.t.name)
			ch.t.resume <- struct{}{}
		} else {
			var f func()
			if ch.t == w {
				f = startWriter()
			} else {
				f = startReader(ch.t, w.inOp)
			}
			ch.t.left--
			if f == nil {
				continue
			}
			others := 0
			for _, t := range tasks {
				if t != ch.t && t.inOp {
					others++
				}
			}
			if others > 0 {
				interleaved++
			}
			ch.t.inOp = true
			ch.t.ops <- f
		}
		if !wait() {
			return
		}
	}
	// run everything still in flight to completion (the writer first: it may hold the lock)
	for s.viol == nil {
		var t *ctask
		for _, x := range tasks {
			if x.parked {
				t = x
				break
			}
		}
		if t == nil {
			break
		}
		cur = t
		t.parked = false
		t.resume <- struct{}{}
		if !wait() {
			return
		}
	}
	if interleaved > 0 {
		s.r.Probe("concurrent_ops_overlapped")
	}
	s.r.Tracef("c: phase over, %d operations started while another was in flight", interleaved)
	if s.viol == nil {
		s.ds.Gate = nil
		s.compareAll(fmt.Sprintf("after the concurrent phase (%d overlapping operations)", interleaved))
	}
}
