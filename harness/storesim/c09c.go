package storesim

import (
	"bytes"
	"errors"
	"fmt"

	"github.com/filecoin-project/go-f3/certs"
	"github.com/filecoin-project/go-f3/certstore"
	"github.com/filecoin-project/go-f3/gpbft"
	"github.com/filecoin-project/go-f3/zz_verif/certgen"
	"github.com/filecoin-project/go-f3/zz_verif/coop"
	"github.com/filecoin-project/go-f3/zz_verif/kernel"
)

// C09, concurrent readers and writers. certstore.go is compiled with a yield point before every
// statement and with simulated mutexes (tools/instr, packages coop and simsync): one or two writer
// tasks and two reader tasks run on goroutines of their own, one at a time, and the seeded
// scheduler decides at yield points and at contended locks who proceeds. Every completed operation
// is checked against bounds that hold for any linearisation: what was committed before the
// operation began must be visible, nothing may be visible that no started Put carries, and
// whatever is returned is byte-equal to the model.

type pendingPut struct {
	cert *certs.FinalityCertificate
	next gpbft.PowerEntries
}

func (s *c09) concurrentPhase(budget int) {
	c, m, cs := s.c, s.m, s.cs
	g := s.gen
	sched := coop.New(c.Intn, []int{3, 10, 30}[c.Intn(3)])
	sched.Trace = func(l string) { s.r.Tracef("c: %s", l) }

	// candidates[j] are the certificates some started Put carries for index j (instance first+j)
	candidates := map[int][]pendingPut{}
	started := len(m.certs) // number of indices for which a valid Put has started (monotone)
	first := m.first
	reach := 0 // no Put of this phase can concern an index beyond this
	certOK := func(j int, got *certs.FinalityCertificate) bool {
		gb := certgen.CertBytes(got)
		if j < len(m.certs) {
			return bytes.Equal(gb, certgen.CertBytes(m.certs[j]))
		}
		for _, p := range candidates[j] {
			if bytes.Equal(gb, certgen.CertBytes(p.cert)) {
				return true
			}
		}
		return false
	}
	tableOK := func(j int, got gpbft.PowerEntries) bool {
		if j < len(m.tables) {
			return tablesEqual(got, m.tables[j])
		}
		for _, p := range candidates[j-1] {
			if tablesEqual(got, p.next) {
				return true
			}
		}
		return false
	}
	// commit makes the model follow the store after a Put for index j returned without error
	commit := func(who string, j int) {
		for len(m.certs) <= j {
			i := len(m.certs)
			stored, err := cs.Get(bg, first+uint64(i))
			if err != nil {
				s.fail("concurrent_read_lost", "after_put", "%s: Put(%d) returned no error but Get(%d) fails: %v", who, first+uint64(j), first+uint64(i), err)
				return
			}
			if len(m.certs) > i {
				continue // another writer's commit got there while the Get above was in progress
			}
			var hit *pendingPut
			for k := range candidates[i] {
				if bytes.Equal(certgen.CertBytes(stored), certgen.CertBytes(candidates[i][k].cert)) {
					hit = &candidates[i][k]
				}
			}
			if hit == nil {
				s.fail("concurrent_read_wrong", "after_put", "%s: the certificate stored at %d is none of those put for that instance", who, first+uint64(i))
				return
			}
			m.certs = append(m.certs, hit.cert)
			m.tables = append(m.tables, hit.next)
			for _, sb := range s.subs {
				sb.pending = hit.cert
			}
			if s.freq > 0 && (first+uint64(i)+1)%s.freq == 0 {
				s.r.Probe("concurrent_checkpoint_crossed")
			}
		}
	}

	type lateSub struct {
		ch    <-chan *certs.FinalityCertificate
		close func()
		by    string
	}
	var lateSubs []lateSub

	writer := func(name string, n int) func() {
		return func() {
			for k := 0; k < n && s.viol == nil; k++ {
				j := len(m.certs)
				next := first + uint64(j)
				curT := m.tables[len(m.tables)-1]
				switch c.Pick([]int{75, 12, 13}) {
				case 0:
					nt := g.Evolve(curT)
					cert := g.Cert(next, g.Chain(s.latestHead(), next, 3), curT, nt)
					candidates[j] = append(candidates[j], pendingPut{cert, nt})
					if len(candidates[j]) > 1 {
						s.r.Probe("concurrent_writers_same_instance")
					}
					if started < j+1 {
						started = j + 1
					}
					s.r.Tracef("c: %s starts Put(%d)", name, next)
					err := cs.Put(bg, cert)
					s.r.Tracef("c: %s Put(%d) -> %v", name, next, err)
					if err != nil {
						s.fail("valid_put_rejected", "concurrent", "%s: Put of a successor (%d) built on the latest state was rejected: %v", name, next, err)
						return
					}
					commit(name, j)
				case 1: // stale duplicate with different content: nothing may change
					if j == 0 {
						continue
					}
					i := c.Intn(j)
					inst := first + uint64(i)
					dup := g.Cert(inst, g.Chain(s.base, inst, 2), m.tables[i], g.Evolve(m.tables[i]))
					err := cs.Put(bg, dup)
					s.r.Tracef("c: %s Put(stale %d) -> %v", name, inst, err)
					if err != nil {
						s.fail("stale_put_error", "concurrent", "Put of the already stored instance %d returned %v", inst, err)
						return
					}
					if got, err := cs.Get(bg, inst); err != nil || !bytes.Equal(certgen.CertBytes(got), certgen.CertBytes(m.certs[i])) {
						s.fail("stale_put_changed_history", "concurrent", "after a stale Put(%d) the stored certificate differs (err %v)", inst, err)
						return
					}
				default: // gap: beyond everything the writers of this phase can ever reach
					inst := first + uint64(reach) + 1 + uint64(c.Intn(3))
					gap := g.Cert(inst, g.Chain(s.latestHead(), inst, 2), curT, curT)
					err := cs.Put(bg, gap)
					s.r.Tracef("c: %s Put(gap %d) -> %v", name, inst, err)
					if err == nil {
						s.fail("gap_accepted", "concurrent", "Put(%d) was accepted although its predecessor was never put", inst)
						return
					}
				}
			}
		}
	}

	reader := func(name string, n int) func() {
		return func() {
			lastLatest := -1
			for k := 0; k < n && s.viol == nil; k++ {
				lo := len(m.certs) // committed when the operation starts
				switch c.Pick([]int{25, 30, 30, 15, 10}) {
				case 4: // Subscribe while writers are active: checked when the phase is over
					ch, closer := cs.Subscribe()
					lateSubs = append(lateSubs, lateSub{ch, closer, name})
					s.r.Probe("concurrent_subscribe")
					s.r.Tracef("c: %s Subscribe", name)
				case 0: // Get
					j := c.Intn(lo + 3)
					inst := first + uint64(j)
					got, err := cs.Get(bg, inst)
					s.r.Tracef("c: %s Get(%d) -> %v", name, inst, err)
					switch {
					case err == nil && j >= started:
						s.fail("concurrent_read_wrong", "get_future", "Get(%d) succeeded although no Put for that instance had started", inst)
					case err == nil && !certOK(j, got):
						s.fail("concurrent_read_wrong", "get", "Get(%d) concurrent with writers returned a certificate that was never put at that instance", inst)
					case err != nil && j < lo:
						s.fail("concurrent_read_lost", "get", "Get(%d) failed (%v) although the certificate was stored before the read began", inst, err)
					}
				case 1: // GetRange
					if lo == 0 && started == 0 {
						continue
					}
					a := c.Intn(lo + 1)
					b := a + c.Intn(lo-a+3)
					got, err := cs.GetRange(bg, first+uint64(a), first+uint64(b))
					s.r.Tracef("c: %s GetRange(%d,%d) -> %d certs, %v", name, first+uint64(a), first+uint64(b), len(got), err)
					for i := range got {
						if a+i >= started || !certOK(a+i, &got[i]) {
							s.fail("concurrent_read_wrong", "range", "GetRange(%d,%d) concurrent with writers: element %d is not a certificate put at instance %d", first+uint64(a), first+uint64(b), i, first+uint64(a+i))
							return
						}
					}
					if mustHave := min(b, lo-1) - a + 1; len(got) < mustHave {
						s.fail("concurrent_read_lost", "range", "GetRange(%d,%d) returned %d certificates although %d of them were stored before the read began", first+uint64(a), first+uint64(b), len(got), mustHave)
						return
					}
					full := len(got) == b-a+1
					if full && err != nil {
						s.fail("concurrent_read_wrong", "range_err", "GetRange returned the full range together with error %v", err)
					} else if !full && !errors.Is(err, certstore.ErrCertNotFound) {
						s.fail("concurrent_read_wrong", "range_err", "GetRange returned %d of %d certificates with error %v (want ErrCertNotFound)", len(got), b-a+1, err)
					}
				case 2: // GetPowerTable
					j := c.Intn(lo + 3)
					inst := first + uint64(j)
					s.r.Probe("concurrent_power_table_query")
					got, err := cs.GetPowerTable(bg, inst)
					s.r.Tracef("c: %s GetPowerTable(%d) -> %d entries, %v", name, inst, len(got), err)
					switch {
					case err != nil && j <= lo:
						s.fail("concurrent_read_lost", "table", "GetPowerTable(%d) failed (%v) although the store's next instance was already %d when the query began", inst, err, first+uint64(lo))
					case err == nil && j > started:
						s.fail("concurrent_read_wrong", "table_future", "GetPowerTable(%d) succeeded although the store's next instance can be at most %d", inst, first+uint64(started))
					case err == nil && !tableOK(j, got):
						s.fail("concurrent_read_wrong", "table", "GetPowerTable(%d) concurrent with writers returned a table that is not the initial table with the deltas of the earlier instances applied", inst)
					}
				default: // Latest
					got := cs.Latest()
					gi := -1
					if got != nil {
						gi = int(got.GPBFTInstance - first)
					}
					switch {
					case gi < lo-1:
						s.fail("concurrent_read_lost", "latest", "Latest is instance index %d although index %d was committed before the call", gi, lo-1)
					case gi >= started:
						s.fail("concurrent_read_wrong", "latest_future", "Latest is instance index %d although only %d Puts had started", gi, started)
					case gi < lastLatest:
						s.fail("latest_went_backwards", "concurrent", "Latest went from index %d to %d for the same reader", lastLatest, gi)
					case gi >= 0 && !certOK(gi, got):
						s.fail("concurrent_read_wrong", "latest", "Latest returned a certificate that was never put at its instance")
					}
					lastLatest = max(lastLatest, gi)
				}
			}
		}
	}

	n1, n2 := 2+c.Intn(6), 0
	if c.Chance(350) {
		n2 = 1 + c.Intn(5)
	}
	reach = len(m.certs) + n1 + n2
	sched.Go("writer1", writer("writer1", n1))
	if n2 > 0 {
		s.r.Probe("concurrent_two_writers")
		sched.Go("writer2", writer("writer2", n2))
	}
	sched.Go("reader1", reader("reader1", 2+c.Intn(8)))
	sched.Go("reader2", reader("reader2", c.Intn(6)))
	err := sched.Run(budget)
	s.r.Tracef("c: phase over: %d yield points passed, %d switches, %d lock waits, err=%v", sched.Yields, sched.Switches, sched.Blocks, err)
	if sched.Switches > 0 {
		s.r.Probe("concurrent_switch_inside_operation")
	}
	if sched.Blocks > 0 {
		s.r.Probe("concurrent_lock_contended")
	}
	var stuck *coop.ErrStuck
	var dead *coop.ErrDeadlock
	switch {
	case errors.As(err, &stuck):
		s.fail("put_blocked", "concurrent", "task %s neither reached a yield point nor completed within %v (unread subscribers: %d)", stuck.Task, coop.StuckAfter, len(s.subs))
		return
	case errors.As(err, &dead):
		s.fail("store_deadlock", "concurrent", "tasks %v wait for the store's lock and nobody can release it", dead.Blocked)
		return
	}
	for _, t := range sched.Tasks() {
		if t.Panic != nil {
			if kernel.IsInfra(t.Panic) {
				panic(t.Panic)
			}
			s.fail("store_panicked", "concurrent", "task %s panicked: %v", t.Name, t.Panic)
			return
		}
	}
	// a subscription taken while writers were active must (eventually) yield the latest certificate
	for _, ls := range lateSubs {
		var last *certs.FinalityCertificate
		for drained := false; !drained; {
			select {
			case v, ok := <-ls.ch:
				if !ok {
					drained = true
				} else {
					last = v
				}
			default:
				drained = true
			}
		}
		ls.close()
		if s.viol != nil || len(m.certs) == 0 {
			continue
		}
		want := m.certs[len(m.certs)-1]
		if last == nil || !bytes.Equal(certgen.CertBytes(last), certgen.CertBytes(want)) {
			got := "nothing"
			if last != nil {
				got = fmt.Sprintf("the certificate of instance %d", last.GPBFTInstance)
			}
			s.fail("subscriber_missed_latest", "concurrent", "a subscription taken by %s while writers were active yields %s although the store's latest certificate is instance %d and no writer is active any more", ls.by, got, want.GPBFTInstance)
		}
	}
	if s.viol == nil {
		s.compareAll(fmt.Sprintf("after the concurrent phase (%d switches inside operations)", sched.Switches))
	}
}
