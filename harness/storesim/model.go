// Package storesim (SIM-B) drives the real certstore, snapshot code, WAL and broadcast path
// against simulated storage (simds, simos) and compares with small executable reference models.
package storesim

import (
	"bytes"
	"context"
	"errors"
	"fmt"
	"time"

	"github.com/filecoin-project/go-f3/certs"
	"github.com/filecoin-project/go-f3/certstore"
	"github.com/filecoin-project/go-f3/gpbft"
	"github.com/filecoin-project/go-f3/zz_verif/certgen"
	"github.com/filecoin-project/go-f3/zz_verif/kernel"
	"github.com/filecoin-project/go-f3/zz_verif/simds"
)

var bg = context.Background()

// env is shared by the certstore-based checks.
type env struct {
	c    *kernel.Chooser
	r    *kernel.Recorder
	prop string
	viol *kernel.Violation
	freq uint64 // lowered power-table checkpoint frequency (0 = real 1440)
	gen  *certgen.Gen
}

func (e *env) fail(kind, key, format string, args ...any) {
	if e.viol != nil {
		return
	}
	key = kind + ":" + key
	if e.r.KnownFinding(e.prop, key) {
		return
	}
	e.viol = &kernel.Violation{Prop: e.prop, Kind: kind, Key: key, Detail: fmt.Sprintf(format, args...)}
	e.r.Tracef("VIOLATION %s", e.viol.String())
}

func (e *env) tune(cs *certstore.Store) *certstore.Store {
	if cs != nil && e.freq > 0 {
		certstore.VerifSetPowerTableFrequency(cs, e.freq)
	}
	return cs
}

// obs is the observable state of a store through its public API.
type obs struct {
	Init   bool
	First  uint64
	Latest int64 // -1 = none
	Certs  [][]byte
	Tables [][]byte
	Err    string
}

func (o *obs) equal(p *obs) bool {
	if o.Init != p.Init || o.First != p.First || o.Latest != p.Latest || o.Err != p.Err || len(o.Certs) != len(p.Certs) || len(o.Tables) != len(p.Tables) {
		return false
	}
	for i := range o.Certs {
		if !bytes.Equal(o.Certs[i], p.Certs[i]) {
			return false
		}
	}
	for i := range o.Tables {
		if !bytes.Equal(o.Tables[i], p.Tables[i]) {
			return false
		}
	}
	return true
}

func (o *obs) String() string {
	if !o.Init {
		return "not-initialised " + o.Err
	}
	return fmt.Sprintf("first=%d latest=%d certs=%d tables=%d %s", o.First, o.Latest, len(o.Certs), len(o.Tables), o.Err)
}

// observe reads everything the property calls observable. Inconsistencies are reported in Err.
func observe(cs *certstore.Store) *obs {
	o := &obs{Init: true, First: certstore.VerifFirstInstance(cs), Latest: -1}
	l := cs.Latest()
	if l != nil {
		o.Latest = int64(l.GPBFTInstance)
	}
	next := o.First
	if l != nil {
		next = l.GPBFTInstance + 1
		if l.GPBFTInstance < o.First {
			o.Err += "latest below first;"
			return o
		}
		for i := o.First; i <= l.GPBFTInstance; i++ {
			c, err := cs.Get(bg, i)
			if err != nil {
				o.Err += fmt.Sprintf("get %d: %v;", i, err)
				return o
			}
			o.Certs = append(o.Certs, certgen.CertBytes(c))
		}
		rng, err := cs.GetRange(bg, o.First, l.GPBFTInstance)
		if err != nil || len(rng) != len(o.Certs) {
			o.Err += fmt.Sprintf("range: %d certs, err %v;", len(rng), err)
			return o
		}
		for i := range rng {
			if !bytes.Equal(certgen.CertBytes(&rng[i]), o.Certs[i]) {
				o.Err += fmt.Sprintf("range cert %d differs from get;", i)
			}
		}
		if !bytes.Equal(certgen.CertBytes(l), o.Certs[len(o.Certs)-1]) {
			o.Err += "latest differs from stored latest;"
		}
	}
	for i := o.First; i <= next; i++ {
		t, err := cs.GetPowerTable(bg, i)
		if err != nil {
			o.Err += fmt.Sprintf("table %d: %v;", i, err)
			return o
		}
		o.Tables = append(o.Tables, certgen.TableBytes(t))
	}
	return o
}

// model is the in-memory reference store.
type model struct {
	created bool
	first   uint64
	tables  []gpbft.PowerEntries // tables[i] is the table for instance first+i
	certs   []*certs.FinalityCertificate
}

func (m *model) next() uint64 { return m.first + uint64(len(m.certs)) }

func (m *model) obs() *obs {
	if !m.created {
		return &obs{}
	}
	o := &obs{Init: true, First: m.first, Latest: -1}
	if len(m.certs) > 0 {
		o.Latest = int64(m.next() - 1)
	}
	for _, c := range m.certs {
		o.Certs = append(o.Certs, certgen.CertBytes(c))
	}
	for _, t := range m.tables {
		o.Tables = append(o.Tables, certgen.TableBytes(t))
	}
	return o
}

func (m *model) clone() *model {
	return &model{created: m.created, first: m.first, tables: append([]gpbft.PowerEntries(nil), m.tables...), certs: append([]*certs.FinalityCertificate(nil), m.certs...)}
}

// putTimed runs Put in its own goroutine so that a writer blocked by a subscriber is reported
// instead of hanging the run. The passing path never waits.
func putTimed(cs *certstore.Store, c *certs.FinalityCertificate) (err error, blocked bool, pv any) {
	type res struct {
		err error
		pv  any
	}
	ch := make(chan res, 1)
	go func() {
		defer func() {
			if p := recover(); p != nil {
				ch <- res{pv: p}
			}
		}()
		ch <- res{err: cs.Put(bg, c)}
	}()
	select {
	case r := <-ch:
		return r.err, false, r.pv
	case <-time.After(30 * time.Second):
		return nil, true, nil
	}
}

// crashed runs f and reports whether the simulated process stopped inside it.
func crashed(f func()) (c bool) {
	defer func() {
		if p := recover(); p != nil {
			if _, ok := p.(simds.Crash); ok {
				c = true
				return
			}
			panic(p)
		}
	}()
	f()
	return false
}

var errNotInit = certstore.ErrNotInitialized

func isNotInit(err error) bool { return errors.Is(err, errNotInit) }
