package storesim

import "github.com/filecoin-project/go-f3/zz_verif/kernel"

// Run dispatches to the check of the given property.
func Run(prop, tier string, c *kernel.Chooser, r *kernel.Recorder) *kernel.Violation {
	switch prop {
	case "C09":
		return runC09(prop, tier, c, r)
	case "C10":
		return runC10(prop, tier, c, r)
	case "C11":
		return runC11(prop, tier, c, r)
	case "C12":
		return runC12(prop, tier, c, r)
	case "C17":
		return runC17(prop, tier, c, r)
	}
	kernel.Infra("storesim: unknown property %s", prop)
	return nil
}
