package storesim

import (
	"bytes"
	"fmt"
	"io"
	"path/filepath"
	"sort"
	"time"

	"github.com/filecoin-project/go-f3/internal/writeaheadlog"
	"github.com/filecoin-project/go-f3/zz_verif/kernel"
	"github.com/filecoin-project/go-f3/zz_verif/simos"
	"github.com/filecoin-project/go-f3/zz_verif/simtime"
	cbg "github.com/whyrusleeping/cbor-gen"
)

// Rec is the harness's WAL entry: CBOR array [epoch, id, payload].
type Rec struct {
	Epoch   uint64
	ID      uint64
	Payload []byte
}

func (r *Rec) WALEpoch() uint64 { return r.Epoch }

func (r *Rec) MarshalCBOR(w io.Writer) error {
	cw := cbg.NewCborWriter(w)
	if err := cw.WriteMajorTypeHeader(cbg.MajArray, 3); err != nil {
		return err
	}
	if err := cw.WriteMajorTypeHeader(cbg.MajUnsignedInt, r.Epoch); err != nil {
		return err
	}
	if err := cw.WriteMajorTypeHeader(cbg.MajUnsignedInt, r.ID); err != nil {
		return err
	}
	if err := cw.WriteMajorTypeHeader(cbg.MajByteString, uint64(len(r.Payload))); err != nil {
		return err
	}
	_, err := cw.Write(r.Payload)
	return err
}

func (r *Rec) UnmarshalCBOR(rd io.Reader) error {
	cr := cbg.NewCborReader(rd)
	maj, n, err := cr.ReadHeader()
	if err != nil {
		return err
	}
	if maj != cbg.MajArray || n != 3 {
		return fmt.Errorf("rec: expected array(3), got %d/%d", maj, n)
	}
	for i := 0; i < 2; i++ {
		maj, v, err := cr.ReadHeader()
		if err != nil {
			return unexpected(err)
		}
		if maj != cbg.MajUnsignedInt {
			return fmt.Errorf("rec: expected uint")
		}
		if i == 0 {
			r.Epoch = v
		} else {
			r.ID = v
		}
	}
	maj, l, err := cr.ReadHeader()
	if err != nil {
		return unexpected(err)
	}
	if maj != cbg.MajByteString || l > 8<<20 {
		return fmt.Errorf("rec: bad payload header")
	}
	r.Payload = make([]byte, l)
	if _, err := io.ReadFull(cr, r.Payload); err != nil {
		return unexpected(err)
	}
	return nil
}

func unexpected(err error) error {
	if err == io.EOF {
		return io.ErrUnexpectedEOF
	}
	return err
}

type walEntry struct {
	rec      Rec
	file     int  // index of the log file generation it was appended to
	acked    bool // Append returned nil
	purgeable bool // its file was (or may have been) removed by a purge
}

type c11 struct {
	*env
	dir     string
	disk    *simos.Disk
	wal     *writeaheadlog.WriteAheadLog[Rec, *Rec]
	entries []*walEntry
	byID    map[uint64]*walEntry
	fileGen int // generation counter: a new file is started after every open, rotate, close
	nextID  uint64
	epoch   uint64
	fileEpochs map[int][]uint64 // acked entry epochs per file generation
	closedGens map[int]bool
	needNewFile bool
}

type walT = writeaheadlog.WriteAheadLog[Rec, *Rec]

// guarded runs f; returns true if the simulated process crashed inside it.
func fsCrashed(f func()) (c bool) {
	defer func() {
		if p := recover(); p != nil {
			if _, ok := p.(simos.Crash); ok {
				c = true
				return
			}
			panic(p)
		}
	}()
	f()
	return false
}

func (s *c11) open() bool {
	var err error
	s.wal, err = writeaheadlog.Open[Rec, *Rec](s.dir)
	if err != nil {
		s.fail("open_failed", "open", "opening the WAL directory failed: %v", err)
		return false
	}
	s.needNewFile = true
	return true
}

// verify reads the log (through a fresh Open on the given disk state) and checks the model.
func (s *c11) verify(d *simos.Disk, when string, lastMayBeTorn *walEntry) {
	if s.viol != nil {
		return
	}
	prev := simos.Cur
	simos.Use(d)
	defer simos.Use(prev)
	w, err := writeaheadlog.Open[Rec, *Rec](s.dir)
	if err != nil {
		s.fail("open_failed", "reopen", "%s: reopening the WAL failed: %v", when, err)
		return
	}
	all, err := w.All()
	if err != nil {
		s.fail("read_failed", "all", "%s: reading the WAL failed: %v", when, err)
		return
	}
	s.check(all, when)
}

func (s *c11) check(all []Rec, when string) {
	seen := map[uint64]int{}
	lastPosInFile := map[int]int{}
	for pos, r := range all {
		e, ok := s.byID[r.ID]
		if !ok {
			s.fail("fabricated_entry", "read", "%s: read returned an entry (id %d, epoch %d, %d payload bytes) that was never appended", when, r.ID, r.Epoch, len(r.Payload))
			return
		}
		if r.Epoch != e.rec.Epoch || !bytes.Equal(r.Payload, e.rec.Payload) {
			s.fail("altered_entry", "read", "%s: entry %d was returned altered (epoch %d/%d, payload %d/%d bytes)", when, r.ID, r.Epoch, e.rec.Epoch, len(r.Payload), len(e.rec.Payload))
			return
		}
		seen[r.ID]++
		if seen[r.ID] > 1 {
			s.fail("duplicated_entry", "read", "%s: entry %d returned %d times", when, r.ID, seen[r.ID])
			return
		}
		if lp, ok := lastPosInFile[e.file]; ok {
			prevID := all[lp].ID
			if prevID > r.ID {
				s.fail("order_violated", "read", "%s: entries %d and %d of the same log file returned out of append order", when, prevID, r.ID)
				return
			}
		}
		lastPosInFile[e.file] = pos
	}
	for _, e := range s.entries {
		if e.acked && !e.purgeable && seen[e.rec.ID] == 0 {
			s.fail("acknowledged_entry_lost", "read", "%s: acknowledged entry %d (epoch %d, %d bytes, file generation %d) is not returned", when, e.rec.ID, e.rec.Epoch, len(e.rec.Payload), e.file)
			return
		}
	}
}

func runC11(prop, tier string, c *kernel.Chooser, r *kernel.Recorder) *kernel.Violation {
	e := &env{c: c, r: r, prop: prop}
	s := &c11{env: e, dir: "/wal", disk: simos.NewDisk(), byID: map[uint64]*walEntry{}, fileEpochs: map[int][]uint64{}, closedGens: map[int]bool{}}
	simos.Use(s.disk)
	simtime.Clock = time.Date(2024, 1, 1, 0, 0, 0, 0, time.UTC).Add(time.Duration(c.Intn(1000)) * time.Millisecond)
	s.disk.LostRemoves = c.Chance(300)
	s.disk.PartialOnCrash = func(n int) int { return c.Intn(n + 1) }
	calls := 0
	s.disk.Trace = func(l string) { calls++; r.Tracef("fs %s", l) }
	steps := 10 + c.Intn(40)
	if tier == "thorough" {
		steps = 20 + c.Intn(150)
	}
	big := c.Chance(250) // a history with large entries that force size-based rotation
	r.Sample["config"] = fmt.Sprintf("steps=%d big=%v lostRemoves=%v", steps, big, s.disk.LostRemoves)
	failInject := c.Chance(300)
	if !s.open() {
		return s.viol
	}
	var lastAppend *walEntry
	var sizeBeforeLast int
	var lastFile string
	for i := 0; i < steps && s.viol == nil; i++ {
		r.Steps++
		// clock step: mostly forward, sometimes zero (name collision) or backwards
		switch c.Pick([]int{70, 10, 10, 10}) {
		case 0:
			simtime.Clock = simtime.Clock.Add(time.Duration(1+c.Intn(5000)) * time.Millisecond)
		case 1:
			r.Probe("clock_zero_step")
		case 2:
			simtime.Clock = simtime.Clock.Add(-time.Duration(1+c.Intn(3000)) * time.Millisecond)
			r.Probe("clock_backwards")
		case 3:
			simtime.Clock = simtime.Clock.Add(time.Duration(1+c.Intn(10)) * time.Second) // whole seconds: trailing zeros trimmed in names
		}
		if c.Chance(150) {
			s.epoch += uint64(c.Intn(3))
		}
		op := c.Pick([]int{60, 6, 5, 8, 8, 8})
		// arm a crash inside this operation?
		crashArmed := false
		if c.Chance(120) {
			s.disk.CrashAt = s.disk.Calls + c.Intn(6)
			crashArmed = true
		}
		if failInject && c.Chance(80) {
			n := s.disk.Calls + c.Intn(4)
			s.disk.Fail = func(op, path string) error {
				if s.disk.Calls-1 == n && (op == "write" || op == "sync") {
					r.Fault("io_error_" + op)
					return fmt.Errorf("injected I/O error")
				}
				return nil
			}
		} else {
			s.disk.Fail = nil
		}
		var crashed bool
		switch op {
		case 0: // append
			size := 10 + c.Intn(200)
			if big {
				size = 100_000 + c.Intn(400_000)
			} else if c.Chance(50) {
				size = 2000 + c.Intn(6000)
			}
			ep := s.epoch
			if c.Chance(200) && ep > 0 {
				ep -= uint64(c.Intn(int(min(ep, 3)) + 1)) // epochs are not monotone within a file
			}
			s.nextID++
			ent := &walEntry{rec: Rec{Epoch: ep, ID: s.nextID, Payload: fill(size, byte(s.nextID))}}
			s.entries = append(s.entries, ent)
			s.byID[ent.rec.ID] = ent
			// which file does it go to? A new file is begun when none is active or the active one
			// exceeded the rotation size; the harness only needs "same file or not", which it
			// derives from the directory listing after the call.
			before := s.disk.Names(s.dir)
			var err error
			crashed = fsCrashed(func() { err = s.wal.Append(ent.rec) })
			after := s.disk.Names(s.dir)
			if len(after) > len(before) {
				// a new file was begun: every earlier file is closed now (explicitly or by size rotation)
				for g := 0; g <= s.fileGen; g++ {
					s.closedGens[g] = true
				}
				s.fileGen++
				r.Probe("new_log_file")
				if !s.needNewFile {
					r.Probe("rotation_by_size")
				}
			}
			s.needNewFile = false
			ent.file = s.fileGen
			if !crashed && err == nil {
				ent.acked = true
				s.fileEpochs[ent.file] = append(s.fileEpochs[ent.file], ep)
				lastAppend = ent
				names := s.disk.Names(s.dir)
				sort.Strings(names)
				lastFile = ""
				// the active file is the one that grew; find by content length change is costly: use newest created
				for _, n := range names {
					b, _ := s.disk.Content(filepath.Join(s.dir, n))
					var buf bytes.Buffer
					_ = ent.rec.MarshalCBOR(&buf)
					if bytes.HasSuffix(b, buf.Bytes()) {
						lastFile = n
						sizeBeforeLast = len(b) - buf.Len()
					}
				}
			} else {
				lastAppend = nil
				if err != nil {
					r.Probe("append_error_returned")
					r.Tracef("append %d -> %v", ent.rec.ID, err)
					// the handle may be unusable after a failed rotation: like the node, carry on
				}
			}
		case 1: // rotate
			var err error
			crashed = fsCrashed(func() { err = s.wal.Rotate() })
			if !crashed && err == nil {
				s.closedGens[s.fileGen] = true
				s.needNewFile = true
			}
			lastAppend = nil
		case 2: // close (the handle stays usable, as documented)
			var err error
			crashed = fsCrashed(func() { err = s.wal.Close() })
			if !crashed && err == nil {
				s.closedGens[s.fileGen] = true
				s.needNewFile = true
			}
			lastAppend = nil
		case 3: // purge
			k := uint64(0)
			if s.epoch > 0 {
				k = uint64(c.Intn(int(s.epoch) + 2))
			}
			before := s.disk.Names(s.dir)
			var err error
			crashed = fsCrashed(func() { err = s.wal.Purge(k) })
			after := s.disk.Names(s.dir)
			r.Tracef("purge(%d): %d -> %d files, err %v", k, len(before), len(after), err)
			// conservative: no acknowledged entry at or above k may disappear; files were removed, so
			// mark entries below k in closed files as purgeable, everything else must stay.
			for _, en := range s.entries {
				if en.rec.Epoch < k && (s.closedGens[en.file] || !en.acked) {
					en.purgeable = true
				}
			}
			if !crashed && err == nil {
				// complete: every closed file whose entries are all below k is gone
				s.checkPurgeComplete(k)
				r.Probe("purge")
			}
			lastAppend = nil
		case 4: // clean restart
			crashed = fsCrashed(func() {
				_ = s.wal.Close()
				s.closedGens[s.fileGen] = true
				if !s.open() {
					return
				}
				for g := 0; g <= s.fileGen; g++ {
					s.closedGens[g] = true
				}
				r.Probe("clean_restart")
				all, err := s.wal.All()
				if err != nil {
					s.fail("read_failed", "all", "All() after restart failed: %v", err)
				} else {
					s.check(all, "after clean restart")
				}
			})
			lastAppend = nil
		case 5: // read through the live handle
			var all []Rec
			var err error
			crashed = fsCrashed(func() { all, err = s.wal.All() })
			if !crashed {
				if err != nil {
					s.fail("read_failed", "all", "All() failed: %v", err)
				} else {
					s.check(all, "live read")
				}
			}
		}
		if crashArmed && !crashed {
			s.disk.CrashAt = -1
		}
		if crashed {
			r.Fault("crash")
			lastAppend = nil
			// what survives: durable bytes + a prefix of every volatile tail (+ zero fill), files
			// never synced may vanish
			s.disk.Recover(
				func(p string, n int) int { k := c.Intn(n + 1); if k < n { r.Fault("torn_tail") }; return k },
				nil, // no zero fill: the property speaks of writes cut off at a byte, not of zero-extended files
				func(p string) bool { v := c.Chance(500); if v { r.Fault("unsynced_file_vanished") }; return v })
			for g := 0; g <= s.fileGen; g++ {
				s.closedGens[g] = true
			}
			if !s.open() {
				return s.viol
			}
			var all []Rec
			var err error
			if fsCrashed(func() { all, err = s.wal.All() }) {
				kernel.Infra("unexpected crash")
			}
			if err != nil {
				s.fail("read_failed", "all", "All() after crash failed: %v", err)
			} else {
				s.check(all, "after crash and restart")
			}
		}
	}
	// ---- torn final append: every byte offset of the last acknowledged record
	if s.viol == nil && lastAppend != nil && lastFile != "" {
		path := filepath.Join(s.dir, lastFile)
		full, _ := s.disk.Content(path)
		reclen := len(full) - sizeBeforeLast
		limit := 4096
		if tier == "thorough" {
			limit = 16384
		}
		// every verification reads the whole log: keep offsets x log size bounded
		logBytes := 0
		for _, n := range s.disk.Names(s.dir) {
			b, _ := s.disk.Content(filepath.Join(s.dir, n))
			logBytes += len(b)
		}
		maxOffsets := max(40, (map[string]int{"quick": 48 << 20, "thorough": 512 << 20}[tier])/max(1, logBytes))
		lastAppend.acked = false // the cut happens "during" that append: it is not acknowledged
		offsets := make([]int, 0, reclen)
		if reclen <= limit && reclen <= maxOffsets {
			for k := 0; k < reclen; k++ {
				offsets = append(offsets, k)
			}
			r.Probe("tear_enumerated")
		} else {
			for k := 0; k < 12 && k < reclen; k++ {
				offsets = append(offsets, k, reclen-1-k)
			}
			for k := 0; k < min(maxOffsets, 200)-24; k++ {
				offsets = append(offsets, c.Intn(reclen))
			}
			r.Probe("tear_sampled")
		}
		for _, k := range offsets {
			d := s.disk.Clone()
			cut := append([]byte(nil), full[:sizeBeforeLast+k]...)
			d.SetContent(path, cut)
			r.Fault("torn_final_append")
			s.verify(d, fmt.Sprintf("final append (%d bytes) cut after %d bytes", reclen, k), lastAppend)
			if s.viol != nil {
				break
			}
			r.Steps++
		}
		lastAppend.acked = true
	}
	if s.viol == nil && c.Chance(150) {
		s.hostEntries()
	}
	if calls == 0 {
		kernel.Infra("the WAL made no simulated file-system call: import swap did not take effect")
	}
	r.Sample["outcome"] = fmt.Sprintf("entries=%d files=%d fscalls=%d", len(s.entries), len(s.disk.Names(s.dir)), calls)
	return s.viol
}

func fill(n int, seed byte) []byte {
	b := make([]byte, n)
	for i := range b {
		b[i] = seed + byte(i*7)
	}
	return b
}

// checkPurgeComplete: every closed log file whose (durably readable) entries are all below k must be gone.
func (s *c11) checkPurgeComplete(k uint64) {
	for _, n := range s.disk.Names(s.dir) {
		b, _ := s.disk.Content(filepath.Join(s.dir, n))
		rd := cbg.NewCborReader(bytes.NewReader(b))
		var maxE uint64
		cnt := 0
		gen := -1
		for {
			var rec Rec
			if err := rec.UnmarshalCBOR(rd); err != nil {
				break
			}
			cnt++
			maxE = max(maxE, rec.Epoch)
			if e, ok := s.byID[rec.ID]; ok {
				gen = e.file
			}
		}
		if cnt > 0 && maxE < k && gen >= 0 && s.closedGens[gen] {
			s.fail("purge_incomplete", "purge", "Purge(%d) left closed log file %s whose %d entries are all below %d (max epoch %d)", k, n, cnt, k, maxE)
			return
		}
	}
}
