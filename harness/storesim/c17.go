package storesim

import (
	"bufio"
	"bytes"
	"encoding/binary"
	"fmt"
	"io"

	"github.com/filecoin-project/go-f3/certs"
	"github.com/filecoin-project/go-f3/certstore"
	"github.com/filecoin-project/go-f3/gpbft"
	"github.com/filecoin-project/go-f3/manifest"
	"github.com/filecoin-project/go-f3/zz_verif/certgen"
	"github.com/filecoin-project/go-f3/zz_verif/kernel"
	"github.com/filecoin-project/go-f3/zz_verif/simds"
	cid "github.com/ipfs/go-cid"
	"github.com/multiformats/go-multihash"
	"golang.org/x/crypto/blake2b"
)

// shortReader returns at most n bytes per Read call (n drawn per call from a fixed cycle).
type shortReader struct {
	r     *bytes.Reader
	sizes []int
	i     int
}

func (s *shortReader) Read(p []byte) (int, error) {
	n := s.sizes[s.i%len(s.sizes)]
	s.i++
	if n < len(p) {
		p = p[:n]
	}
	return s.r.Read(p)
}

func splitBlocks(b []byte) (blocks [][]byte, ok bool) {
	for len(b) > 0 {
		n, k := binary.Uvarint(b)
		if k <= 0 || uint64(len(b)-k) < n {
			return blocks, false
		}
		blocks = append(blocks, b[k:k+int(n)])
		b = b[k+int(n):]
	}
	return blocks, true
}

func joinBlocks(blocks [][]byte) []byte {
	var out []byte
	for _, bl := range blocks {
		var l [10]byte
		n := binary.PutUvarint(l[:], uint64(len(bl)))
		out = append(out, l[:n]...)
		out = append(out, bl...)
	}
	return out
}

type c17 struct {
	*env
	want *obs
	first uint64
}

// tryImport imports stream into a fresh datastore; returns the import error or the observation of
// the resulting store.
func (s *c17) tryImport(stream io.Reader, m *manifest.Manifest) (error, *obs, any) {
	target := simds.New()
	var err error
	var pv any
	func() {
		defer func() {
			if p := recover(); p != nil {
				pv = p
			}
		}()
		rd := bufio.NewReader(stream)
		if s.freq > 0 {
			err = certstore.VerifImportSnapshot(bg, rd, target, m, s.freq)
		} else {
			err = certstore.ImportSnapshotToDatastore(bg, rd, target, m)
		}
	}()
	if pv != nil || err != nil {
		return err, nil, pv
	}
	cs, oerr := certstore.OpenStore(bg, target)
	if oerr != nil {
		return nil, &obs{Err: "open after import: " + oerr.Error()}, nil
	}
	s.tune(cs)
	return nil, observe(cs), nil
}

// mustReject feeds a malformed snapshot; accepted = violation.
func (s *c17) mustReject(kind string, stream []byte, m *manifest.Manifest, detail string) {
	if s.viol != nil {
		return
	}
	s.r.Fault("snapshot_" + kind)
	s.r.Steps++
	err, o, pv := s.tryImport(bytes.NewReader(stream), m)
	if kind != "truncated" {
		s.r.Tracef("import %s (%s) -> %v", kind, detail, err)
	}
	if pv != nil {
		s.fail("import_panicked", kind, "import of a %s snapshot (%s) panicked: %v", kind, detail, pv)
		return
	}
	if err == nil {
		s.fail("malformed_snapshot_accepted", kind, "import accepted a %s snapshot (%s); resulting store {%s}, exporter {%s}", kind, detail, o, s.want)
	}
}

func runC17(prop, tier string, c *kernel.Chooser, r *kernel.Recorder) *kernel.Violation {
	e := &env{c: c, r: r, prop: prop, gen: certgen.New(c, false)}
	if c.Chance(750) {
		e.freq = uint64(2 + c.Intn(5))
	}
	s := &c17{env: e}
	g := e.gen
	n := 1 + c.Intn(12)
	if tier == "thorough" {
		n = 1 + c.Intn(40)
	}
	first := uint64(1 + c.Intn(20))
	if e.freq == 0 {
		first = 1440*uint64(1+c.Intn(2)) - uint64(1+c.Intn(n+1))
	}
	s.first = first
	h := g.NewHistory(first, n, 1+c.Intn(5), 2)
	src := simds.New()
	cs, err := certstore.CreateStore(bg, src, first, h.Tables[0])
	if err != nil {
		kernel.Infra("create exporter: %v", err)
	}
	s.tune(cs)
	for _, ct := range h.Certs {
		if err := cs.Put(bg, ct); err != nil {
			kernel.Infra("exporter put: %v", err)
		}
	}
	endIdx := n - 1
	if c.Chance(400) {
		endIdx = c.Intn(n)
	}
	end := first + uint64(endIdx)
	r.Sample["config"] = fmt.Sprintf("freq=%d first=%d certs=%d export_end=%d", e.freq, first, n, end)
	// occasionally reopen the exporter first
	if c.Chance(300) {
		cs, err = certstore.OpenStore(bg, src)
		if err != nil {
			kernel.Infra("reopen exporter: %v", err)
		}
		s.tune(cs)
	}
	var buf bytes.Buffer
	var digest cid.Cid
	var hdr *certstore.SnapshotHeader
	if endIdx == n-1 && c.Chance(500) {
		digest, hdr, err = cs.ExportLatestSnapshot(bg, &buf)
	} else {
		digest, hdr, err = cs.ExportSnapshot(bg, end, &buf)
	}
	if err != nil {
		s.fail("export_failed", "export", "export up to %d failed: %v", end, err)
		return s.viol
	}
	snap := buf.Bytes()
	r.Tracef("config %s snapshot=%d bytes digest=%s", r.Sample["config"], len(snap), digest)
	// reference observation: exporter truncated at end
	m := &model{created: true, first: first, tables: h.Tables[:endIdx+2], certs: h.Certs[:endIdx+1]}
	s.want = m.obs()

	// digest = blake2b-256 of the exported bytes
	sum := blake2b.Sum256(snap)
	mh, _ := multihash.Encode(sum[:], multihash.BLAKE2B_MIN+31)
	if want := cid.NewCidV1(cid.Raw, mh); !digest.Equals(want) {
		s.fail("digest_mismatch", "export", "export digest %s does not match the exported bytes (%s)", digest, want)
		return s.viol
	}
	if hdr.FirstInstance != first || hdr.LatestInstance != end || !tablesEqual(hdr.InitialPowerTable, h.Tables[0]) {
		s.fail("header_mismatch", "export", "export header %d..%d does not describe the export %d..%d", hdr.FirstInstance, hdr.LatestInstance, first, end)
		return s.viol
	}
	blocks, ok := splitBlocks(snap)
	if !ok || len(blocks) != endIdx+2 {
		s.fail("export_malformed", "export", "exported stream has %d well-formed blocks, expected %d", len(blocks), endIdx+2)
		return s.viol
	}

	// ---- intact imports (plain, short reads, matching manifest)
	ptCid, _ := certs.MakePowerTableCID(h.Tables[0])
	good := &manifest.Manifest{InitialInstance: first, InitialPowerTable: ptCid}
	for v := 0; v < 3 && s.viol == nil; v++ {
		var rd io.Reader = bytes.NewReader(snap)
		var mf *manifest.Manifest
		switch v {
		case 1:
			rd = &shortReader{r: bytes.NewReader(snap), sizes: []int{1 + c.Intn(3), 1 + c.Intn(7), 1 + c.Intn(64), 1}}
			r.Fault("short_reads")
		case 2:
			mf = good
			if c.Chance(500) {
				mf = &manifest.Manifest{InitialInstance: first}
			}
		}
		err, o, pv := s.tryImport(rd, mf)
		r.Steps++
		if pv != nil {
			s.fail("import_panicked", "intact", "import of an intact snapshot panicked: %v", pv)
		} else if err != nil {
			s.fail("intact_snapshot_rejected", "intact", "import of the intact snapshot (variant %d) failed: %v", v, err)
		} else if !o.equal(s.want) {
			s.fail("import_not_identical", "intact", "imported store {%s} differs from the exporter up to %d {%s}", o, end, s.want)
		}
	}
	if s.viol != nil {
		return s.viol
	}

	// ---- truncation at every byte offset (enumerated when small, sampled otherwise)
	limit := 1200
	if tier == "thorough" {
		limit = 20000
	}
	if len(snap) > limit {
		// always enumerate every cut inside the last two blocks
		from := len(snap) - len(blocks[len(blocks)-1]) - 12
		if len(blocks) > 2 {
			from -= len(blocks[len(blocks)-2])
		}
		for k := max(0, from); k < len(snap) && s.viol == nil; k++ {
			s.mustReject("truncated", snap[:k], nil, fmt.Sprintf("cut at byte %d of %d", k, len(snap)))
		}
	}
	if len(snap) <= limit {
		for k := 0; k < len(snap) && s.viol == nil; k++ {
			s.mustReject("truncated", snap[:k], nil, fmt.Sprintf("cut at byte %d of %d", k, len(snap)))
		}
		r.Probe("truncation_enumerated")
	} else {
		for i := 0; i < 150 && s.viol == nil; i++ {
			k := c.Intn(len(snap))
			s.mustReject("truncated", snap[:k], nil, fmt.Sprintf("cut at byte %d of %d", k, len(snap)))
		}
	}
	// ---- block-level corruptions
	nb := len(blocks)
	for i := 0; i < 12 && s.viol == nil; i++ {
		bl := append([][]byte(nil), blocks...)
		switch c.Intn(8) {
		case 0: // gap
			if nb < 3 {
				continue
			}
			j := 1 + c.Intn(nb-2) // never the last block: that is a truncation with a wrong header
			bl = append(bl[:j:j], bl[j+1:]...)
			s.mustReject("gap", joinBlocks(bl), nil, fmt.Sprintf("certificate block %d removed", j))
		case 1: // last certificate missing (header promises more)
			if nb < 2 {
				continue
			}
			s.mustReject("gap", joinBlocks(bl[:nb-1]), nil, "last certificate block removed")
		case 2: // reordered
			if nb < 3 {
				continue
			}
			j := 1 + c.Intn(nb-2)
			bl[j], bl[j+1] = bl[j+1], bl[j]
			s.mustReject("reordered", joinBlocks(bl), nil, fmt.Sprintf("blocks %d and %d swapped", j, j+1))
		case 3: // duplicated
			j := 1 + c.Intn(nb-1)
			bl = append(bl[:j+1:j+1], append([][]byte{bl[j]}, bl[j+1:]...)...)
			s.mustReject("surplus", joinBlocks(bl), nil, fmt.Sprintf("certificate block %d duplicated", j))
		case 4: // surplus certificate beyond the header's latest
			cur := h.Tables[endIdx+1]
			extra := g.Cert(end+1, g.Chain(h.Certs[endIdx].ECChain.Head(), end+1, 1), cur, cur)
			bl = append(bl, certgen.CertBytes(extra))
			s.mustReject("surplus", joinBlocks(bl), nil, "valid successor certificate appended beyond the header's latest instance")
		case 5: // header disagrees
			var hb bytes.Buffer
			h2 := *hdr
			switch c.Intn(3) {
			case 0:
				h2.LatestInstance = end + 1 + uint64(c.Intn(3))
			case 1:
				if end == first {
					continue
				}
				h2.LatestInstance = end - 1
			case 2:
				h2.FirstInstance = first + 1
			}
			if _, err := h2.WriteTo(&hb); err != nil {
				kernel.Infra("header: %v", err)
			}
			hblocks, _ := splitBlocks(hb.Bytes())
			bl[0] = hblocks[0]
			s.mustReject("header_disagrees", joinBlocks(bl), nil, fmt.Sprintf("header rewritten to %d..%d", h2.FirstInstance, h2.LatestInstance))
		case 6, 7: // delta does not reproduce the committed table
			j := 1 + c.Intn(nb-1)
			cts := make([]*certs.FinalityCertificate, nb-1)
			for x := 1; x < nb; x++ {
				cts[x-1] = new(certs.FinalityCertificate)
				if err := cts[x-1].UnmarshalCBOR(bytes.NewReader(bl[x])); err != nil {
					kernel.Infra("decode cert: %v", err)
				}
			}
			cur := h.Tables[j-1]
			detail := ""
			if c.Chance(500) && j+1 < nb {
				// phantom member: added by delta j, removed again by delta j+1, so that only the
				// table committed by certificate j is not reproduced
				ph := g.InitialTable(1)[0]
				ph.ID = 4000000
				with := certgen.Canon(append(append(gpbft.PowerEntries(nil), h.Tables[j]...), ph))
				cts[j-1].PowerTableDelta = certgen.Diff(cur, with)
				cts[j].PowerTableDelta = certgen.Diff(with, h.Tables[j+1])
				bl[j+1] = certgen.CertBytes(cts[j])
				detail = fmt.Sprintf("phantom member added by the delta of block %d and removed by block %d", j, j+1)
			} else {
				other := g.Evolve(g.Evolve(h.Tables[j]))
				if tablesEqual(other, h.Tables[j]) {
					other = certgen.Canon(append(append(gpbft.PowerEntries(nil), cur...), g.InitialTable(1)...))
				}
				if tablesEqual(other, h.Tables[j]) {
					continue
				}
				cts[j-1].PowerTableDelta = certgen.Diff(cur, other)
				detail = fmt.Sprintf("delta of certificate block %d replaced", j)
			}
			bl[j] = certgen.CertBytes(cts[j-1])
			// classify with the harness's own delta application: does the discrepancy reach a
			// checkpoint or the final table?
			freq := s.freq
			if freq == 0 {
				freq = 1440
			}
			t := h.Tables[0]
			checked := false
			for x, ct := range cts {
				t = certgen.Apply(t, ct.PowerTableDelta)
				committed := tablesEqual(t, h.Tables[x+1])
				if !committed && ((ct.GPBFTInstance+1)%freq == 0 || x == len(cts)-1) {
					checked = true
				}
			}
			if checked {
				s.mustReject("wrong_delta", joinBlocks(bl), nil, detail)
			} else {
				r.Probe("wrong_delta_cancelled_before_checkpoint")
				s.mustReject("wrong_delta_uncheckpointed", joinBlocks(bl), nil, detail+"; the discrepancy is cancelled by a later delta before the next checkpoint")
			}
		}
	}
	// ---- manifest disagreement
	if s.viol == nil {
		bad := &manifest.Manifest{InitialInstance: first + 1, InitialPowerTable: ptCid}
		if c.Chance(500) {
			oc, _ := certs.MakePowerTableCID(g.InitialTable(2))
			bad = &manifest.Manifest{InitialInstance: first, InitialPowerTable: oc}
		}
		s.mustReject("manifest_disagrees", snap, bad, "manifest with different initial instance or power table")
	}
	r.Sample["outcome"] = fmt.Sprintf("snapshot_bytes=%d blocks=%d", len(snap), nb)
	return s.viol
}
