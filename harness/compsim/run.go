package compsim

import "github.com/filecoin-project/go-f3/zz_verif/kernel"

// Run dispatches to the check of the given property.
func Run(prop, tier string, c *kernel.Chooser, r *kernel.Recorder) *kernel.Violation {
	switch prop {
	case "C03":
		return runC03host(prop, tier, c, r)
	case "C15":
		return runC15(prop, tier, c, r)
	case "C18":
		return runC18(prop, tier, c, r)
	case "C19":
		return runC19(prop, tier, c, r)
	}
	kernel.Infra("compsim: unknown property %s", prop)
	return nil
}
