// Package compsim (SIM-D) holds the component simulations against executable reference models:
// chain exchange (C18), consensus inputs over an EC world (C15) and fidelity of the repo's own
// test tooling (C19).
package compsim

import (
	"bytes"
	"context"
	"fmt"
	"math/big"
	"sort"
	"time"

	"github.com/filecoin-project/go-bitfield"
	rlepluslazy "github.com/filecoin-project/go-bitfield/rle"
	f3 "github.com/filecoin-project/go-f3"
	"github.com/filecoin-project/go-f3/certchain"
	"github.com/filecoin-project/go-f3/certs"
	"github.com/filecoin-project/go-f3/certstore"
	"github.com/filecoin-project/go-f3/gpbft"
	"github.com/filecoin-project/go-f3/internal/clock"
	"github.com/filecoin-project/go-f3/manifest"
	"github.com/filecoin-project/go-f3/sim"
	"github.com/filecoin-project/go-f3/sim/adversary"
	"github.com/filecoin-project/go-f3/sim/signing"
	"github.com/filecoin-project/go-f3/zz_verif/certgen"
	"github.com/filecoin-project/go-f3/zz_verif/ecworld"
	"github.com/filecoin-project/go-f3/zz_verif/kernel"
	"github.com/filecoin-project/go-f3/zz_verif/simds"
)

var bg = context.Background()

type env struct {
	c    *kernel.Chooser
	r    *kernel.Recorder
	prop string
	viol *kernel.Violation
}

func (e *env) fail(kind, key, format string, args ...any) {
	if e.viol != nil {
		return
	}
	key = kind + ":" + key
	if e.r.KnownFinding(e.prop, key) {
		return
	}
	e.viol = &kernel.Violation{Prop: e.prop, Kind: kind, Key: key, Detail: fmt.Sprintf(format, args...)}
	e.r.Tracef("VIOLATION %s", e.viol.String())
}

func bitfieldOf(idx []int) bitfield.BitField {
	u := make([]uint64, len(idx))
	for i, x := range idx {
		u[i] = uint64(x)
	}
	ri, _ := rlepluslazy.RunsFromSlice(u)
	bf, _ := bitfield.NewFromIter(ri)
	return bf
}

// ---------------------------------------------------------------------------------------------
// C19 (a): the repo simulator must flag forged / under-powered / disagreeing decisions.

type injector struct {
	adversary.Absent
	e           *env
	host        adversary.Host
	id          gpbft.ActorID
	variant     int
	targetK     uint64
	simRef      **sim.Simulation
	expectError bool
	what        string
	done        bool
}

func (in *injector) AllowMessage(gpbft.ActorID, gpbft.ActorID, gpbft.GMessage) bool { return true }

// craft builds a decision for instance k signed (genuinely) by the table members at idxs.
func (in *injector) craft(k uint64, com *gpbft.Committee, supp gpbft.SupplementalData, value *gpbft.ECChain, idxs []int, phase gpbft.Phase, round uint64, signInstance uint64) *gpbft.Justification {
	p := gpbft.Payload{Instance: signInstance, Round: round, Phase: phase, SupplementalData: supp, Value: value}
	msg := p.MarshalForSigning(in.host.NetworkName())
	sort.Ints(idxs)
	sigs := make([][]byte, len(idxs))
	for j, i := range idxs {
		s, err := in.host.Sign(bg, com.PowerTable.Entries[i].PubKey, msg)
		if err != nil {
			kernel.Infra("sign: %v", err)
		}
		sigs[j] = s
	}
	agg, err := com.AggregateVerifier.Aggregate(idxs, sigs)
	if err != nil {
		kernel.Infra("aggregate: %v", err)
	}
	p.Instance = k
	return &gpbft.Justification{Vote: p, Signers: bitfieldOf(idxs), Signature: agg}
}

// subsets returns a strong-quorum signer set and an under-powered one (clearly below 2/3 both in
// raw and in scaled power, exact arithmetic).
func signerSets(c *kernel.Chooser, pt *gpbft.PowerTable) (strong, weak []int) {
	total := new(big.Int)
	for _, e := range pt.Entries {
		total.Add(total, e.Power.Int)
	}
	scaled := make([]int64, len(pt.Entries))
	var T int64
	for i, e := range pt.Entries {
		x := new(big.Int).Mul(e.Power.Int, big.NewInt(65535))
		scaled[i] = x.Div(x, total).Int64()
		T += scaled[i]
	}
	perm := c.Perm(len(pt.Entries))
	raw := new(big.Int)
	var sp int64
	for _, i := range perm {
		// would adding i keep us strictly below 2/3 in both measures?
		nr := new(big.Int).Add(raw, pt.Entries[i].Power.Int)
		ns := sp + scaled[i]
		below := new(big.Int).Mul(nr, big.NewInt(3)).Cmp(new(big.Int).Mul(total, big.NewInt(2))) < 0 && 3*ns < 2*T
		strong = append(strong, i)
		if below {
			weak = append(weak, i)
			raw, sp = nr, ns
		}
		_ = below
	}
	// strong = all members (certainly a quorum)
	return strong, weak
}

func (in *injector) StartInstanceAt(k uint64, _ time.Time) error {
	if in.done || k != in.targetK {
		return nil
	}
	supp, chain, err := in.host.GetProposal(bg, k)
	if err != nil {
		kernel.Infra("GetProposal: %v", err)
	}
	return in.inject(k, supp, chain)
}

// ReceiveMessage triggers the injection for instances after the first one: the first QUALITY
// message seen for the target instance tells its base and supplemental data.
func (in *injector) ReceiveMessage(_ context.Context, vm gpbft.ValidatedMessage) error {
	m := vm.Message()
	if in.done || in.targetK == 0 || m.Vote.Instance != in.targetK || m.Vote.Phase != gpbft.QUALITY_PHASE || m.Vote.Value.IsZero() {
		return nil
	}
	supp := m.Vote.SupplementalData
	return in.inject(in.targetK, &supp, m.Vote.Value)
}

func (in *injector) inject(k uint64, supp *gpbft.SupplementalData, chain *gpbft.ECChain) error {
	in.done = true
	in.e.r.Probe(fmt.Sprintf("inject_at_instance_%d", k))
	c := in.e.c
	com, err := in.host.GetCommittee(bg, k)
	if err != nil {
		kernel.Infra("GetCommittee: %v", err)
	}
	base := chain.BaseChain()
	longer := base.Extend([]byte("verif-extra-1"))
	strong, weak := signerSets(c, com.PowerTable)
	value := base
	if c.Chance(500) {
		value = longer
	}
	var d *gpbft.Justification
	target := gpbft.Host(in.host)
	honest := sim.VerifHonestHosts(*in.simRef)
	viaHonest := c.Chance(300) && len(honest) > 0
	if viaHonest {
		target = honest[c.Intn(len(honest))]
	}
	// History: the forged decision may come after valid ones for the same instance (reported by
	// the same or by other participants) and may borrow their aggregate.
	var valid *gpbft.Justification
	report := func(t gpbft.Host, d *gpbft.Justification) {
		if _, err := t.ReceiveDecision(bg, d); err != nil {
			kernel.Infra("ReceiveDecision: %v", err)
		}
	}
	if in.variant >= 11 || c.Chance(400) {
		pv := value
		if c.Chance(300) {
			pv = base
		}
		valid = in.craft(k, com, *supp, pv, append([]int(nil), strong...), gpbft.DECIDE_PHASE, 0, k)
		pt := gpbft.Host(in.host)
		if c.Chance(300) && len(honest) > 0 {
			pt = honest[c.Intn(len(honest))]
		}
		in.e.r.Tracef("prelude: valid decision reported first (same reporter as the injection: %v)", pt == target)
		in.e.r.Probe("valid_decision_before_injection")
		report(pt, valid)
	}
	switch in.variant {
	case 11, 12, 13:
		// a decision that re-uses the bytes of an aggregate already reported in a valid decision
		d = &gpbft.Justification{Vote: valid.Vote, Signers: valid.Signers, Signature: append([]byte(nil), valid.Signature...)}
		in.expectError = true
		switch in.variant {
		case 11:
			if valid.Vote.Value.Eq(longer) {
				d.Vote.Value = longer.Extend([]byte("verif-extra-2"))
			} else {
				d.Vote.Value = longer
			}
			in.what = "decision for another value carrying the aggregate of a valid decision reported before"
		case 12:
			d.Vote.SupplementalData.PowerTable = gpbft.MakeCid([]byte(fmt.Sprintf("verif-other-supp-%d", c.Intn(4))))
			in.what = "decision with other supplemental data carrying the aggregate of a valid decision reported before"
		case 13:
			if len(weak) == 0 {
				in.expectError = false
				in.what = "no under-powered subset available"
				return nil
			}
			d.Signers = bitfieldOf(append([]int(nil), weak...))
			in.what = "decision listing an under-powered signer set carrying the aggregate of a valid decision reported before"
		}
	case 0:
		d = in.craft(k, com, *supp, value, strong, gpbft.DECIDE_PHASE, 0, k)
		in.what = "valid decision"
	case 1:
		if len(weak) == 0 {
			in.what = "no under-powered subset available"
			return nil
		}
		d = in.craft(k, com, *supp, value, weak, gpbft.DECIDE_PHASE, 0, k)
		in.expectError = true
		in.what = fmt.Sprintf("decision signed by %d of %d members holding less than 2/3 of the power (all signatures genuine)", len(weak), len(com.PowerTable.Entries))
	case 2:
		d = in.craft(k+1+uint64(c.Intn(3)), com, *supp, value, strong, gpbft.DECIDE_PHASE, 0, k)
		in.expectError = true
		in.what = "decision for another instance"
	case 3:
		d = in.craft(k, com, *supp, value, strong, gpbft.COMMIT_PHASE, 0, k)
		in.expectError = true
		in.what = "decision with phase COMMIT"
	case 4:
		d = in.craft(k, com, *supp, value, strong, gpbft.DECIDE_PHASE, 1+uint64(c.Intn(3)), k)
		in.expectError = true
		in.what = "decision with non-zero round"
	case 5:
		d = in.craft(k, com, *supp, &gpbft.ECChain{}, strong, gpbft.DECIDE_PHASE, 0, k)
		in.expectError = true
		in.what = "decision for the empty chain"
	case 6:
		other := &gpbft.ECChain{TipSets: []*gpbft.TipSet{{Epoch: 0, Key: []byte("other-genesis"), PowerTable: base.Base().PowerTable}}}
		d = in.craft(k, com, *supp, other, strong, gpbft.DECIDE_PHASE, 0, k)
		in.expectError = true
		in.what = "decision with a foreign base"
	case 7:
		d = in.craft(k, com, *supp, value, strong, gpbft.DECIDE_PHASE, 0, k)
		if c.Chance(500) {
			d.Signature = append([]byte(nil), d.Signature...)
			d.Signature[c.Intn(len(d.Signature))] ^= 1 << uint(c.Intn(8))
			in.what = "decision with a corrupted aggregate signature"
		} else {
			d2 := in.craft(k, com, *supp, longer.Extend([]byte("x")), strong, gpbft.DECIDE_PHASE, 0, k)
			d.Signature = d2.Signature
			in.what = "decision whose aggregate signs a different value"
		}
		in.expectError = true
	case 8:
		d = in.craft(k, com, *supp, value, strong, gpbft.DECIDE_PHASE, 0, k)
		d.Signers = bitfieldOf(append(append([]int(nil), strong...), len(com.PowerTable.Entries)+c.Intn(3)))
		in.expectError = true
		in.what = "decision listing a signer outside the table"
	case 9, 10:
		// every honest participant gets a valid decision; in variant 9 two of them differ
		if len(honest) < 2 {
			in.what = "not enough honest participants"
			return nil
		}
		odd := c.Intn(len(honest))
		for i, h := range honest {
			v := base
			if in.variant == 9 && i == odd {
				v = longer
			}
			dd := in.craft(k, com, *supp, v, append([]int(nil), strong...), gpbft.DECIDE_PHASE, 0, k)
			if _, err := h.ReceiveDecision(bg, dd); err != nil {
				kernel.Infra("ReceiveDecision: %v", err)
			}
		}
		in.expectError = in.variant == 9
		in.what = "valid decisions injected for every honest participant"
		if in.variant == 9 {
			in.what += ", one of them for a different value"
		}
		return nil
	}
	if viaHonest {
		in.what += " (reported through an honest participant's host)"
	}
	in.e.r.Tracef("inject variant %d at instance %d: %s", in.variant, k, in.what)
	report(target, d)
	if in.expectError && c.Chance(300) {
		// the same reporter follows up with a valid decision: the run is flawed all the same
		in.e.r.Probe("valid_decision_after_injection")
		report(target, in.craft(k, com, *supp, value, append([]int(nil), strong...), gpbft.DECIDE_PHASE, 0, k))
	}
	return nil
}

func runC19a(e *env, tier string) {
	c, r := e.c, e.r
	n := 2 + c.Intn(5)
	var opts []sim.Option
	sb := signing.NewFakeBackend()
	opts = append(opts, sim.WithSigningBackend(sb))
	// honest archetypes with different powers
	groups := 1 + c.Intn(3)
	left := n
	advPower := int64(1) // the silent adversary must stay below one third so that the honest run terminates quickly
	boundary := c.Chance(200)
	if boundary {
		// Raw powers summing to 65536 scale to raw-1 each, so the scaled total T = 65536-3 has
		// 2T not divisible by 3, and one honest member holds exactly floor(2T/3): alone it is just
		// short of a strong quorum, a decision it signs alone is under-powered by one unit.
		n, groups, left = 2, 0, 0
		advPower = int64(1 + c.Intn(3000))
		T := int64(65536 - 3)
		big := 2*T/3 + 1 // raw power whose scaled value is floor(2T/3)
		opts = append(opts, sim.AddHonestParticipants(1, sim.NewUniformECChainGenerator(uint64(c.Intn(1000)), 1, 4), sim.UniformStoragePower(gpbft.NewStoragePower(big))))
		opts = append(opts, sim.AddHonestParticipants(1, sim.NewUniformECChainGenerator(uint64(c.Intn(1000)), 1, 4), sim.UniformStoragePower(gpbft.NewStoragePower(65536-big-advPower))))
		r.Probe("boundary_power_table")
	}
	for g := 0; g < groups && left > 0; g++ {
		cnt := 1 + c.Intn(left)
		if g == groups-1 {
			cnt = left
		}
		left -= cnt
		pw := int64(2 + c.Intn(50))
		opts = append(opts, sim.AddHonestParticipants(cnt, sim.NewUniformECChainGenerator(uint64(c.Intn(1000)), 1, 4), sim.UniformStoragePower(gpbft.NewStoragePower(pw))))
	}
	instances := 1 + c.Pick([]int{50, 30, 20})
	inj := &injector{e: e, variant: c.Intn(14), targetK: uint64(c.Intn(instances))}
	if boundary && c.Chance(600) {
		inj.variant = 1
	}
	var s *sim.Simulation
	inj.simRef = &s
	opts = append(opts, sim.WithAdversary(func(id gpbft.ActorID, h adversary.Host) *adversary.Adversary {
		inj.host, inj.id = h, id
		return &adversary.Adversary{Receiver: inj, Power: gpbft.NewStoragePower(advPower), ID: id}
	}))
	opts = append(opts, sim.WithGpbftOptions(gpbft.WithDelta(time.Second), gpbft.WithRebroadcastBackoff(1.3, 0, time.Second, 5*time.Second)))
	var err error
	s, err = sim.NewSimulation(opts...)
	if err != nil {
		kernel.Infra("NewSimulation: %v", err)
	}
	runErr := s.Run(uint64(instances), 6)
	r.Sample["config"] = fmt.Sprintf("honest=%d groups=%d advPower=%d variant=%d instances=%d target=%d", n, groups, advPower, inj.variant, instances, inj.targetK)
	r.Sample["outcome"] = fmt.Sprintf("%s -> Run error: %v", inj.what, runErr)
	r.Tracef("%s | %s", r.Sample["config"], r.Sample["outcome"])
	r.Steps++
	if inj.expectError {
		r.Fault(fmt.Sprintf("forged_decision_v%d", inj.variant))
		if runErr == nil {
			e.fail("forged_decision_not_reported", fmt.Sprintf("variant%d", inj.variant), "sim.Simulation.Run returned no error although it was given a %s", inj.what)
		}
	} else if inj.done && runErr == nil {
		r.Probe("valid_decision_accepted")
	}
}

// ---------------------------------------------------------------------------------------------
// C19 (b): certchain derives committees by the node's look-back rule.

func runC19b(e *env, tier string) {
	c, r := e.c, e.r
	start := time.Date(2024, 1, 1, 0, 0, 0, 0, time.UTC)
	g := certgen.New(c, false)
	genesisTable := g.InitialTable(2 + c.Intn(4))
	if c.Chance(350) {
		// big powers and one member whose power scales to zero (it can never be a signer)
		for i := range genesisTable {
			genesisTable[i].Power = gpbft.NewStoragePower(genesisTable[i].Power.Int64() * 100_000)
		}
		dust := g.InitialTable(1)
		dust[0].Power = gpbft.NewStoragePower(1)
		genesisTable = certgen.Canon(append(genesisTable, dust...))
		r.Probe("world_with_zero_scaled_member")
	}
	w := ecworld.New(start, 30*time.Second, genesisTable)
	// a linear chain whose power table evolves every few epochs
	n := 1 + c.Intn(6)
	if tier == "thorough" {
		n = 1 + c.Intn(14)
	}
	epochs := int64(140*(n+2) + 50)
	cur := w.Head
	tbl := cur.Table
	for ep := int64(1); ep <= epochs; ep++ {
		if c.Chance(400) {
			tbl = g.Evolve(tbl)
		}
		cur = w.Extend(cur, ep, tbl)
	}
	w.Head = cur
	m := manifest.LocalDevnetManifest()
	m.InitialInstance = uint64(c.Intn(4))
	m.CommitteeLookback = uint64(2 + c.Intn(6)) // the node itself needs a look-back of at least 2
	m.BootstrapEpoch = int64(5 + c.Intn(20))
	m.EC.Finality = int64(c.Intn(5))
	cc, err := certchain.New(certchain.WithEC(w), certchain.WithManifest(m), certchain.WithSignVerifier(g.Sig), certchain.WithSeed(int64(c.Intn(1<<30))))
	if err != nil {
		kernel.Infra("certchain.New: %v", err)
	}
	crts, err := cc.Generate(bg, uint64(n))
	r.Sample["config"] = fmt.Sprintf("certs=%d initial=%d lookback=%d bootstrap=%d finality=%d", n, m.InitialInstance, m.CommitteeLookback, m.BootstrapEpoch, m.EC.Finality)
	r.Tracef("%s", r.Sample["config"])
	if err != nil {
		e.fail("certchain_generate_failed", "generate", "certchain.Generate(%d) failed: %v", n, err)
		return
	}
	if c.Chance(300) {
		// the same generator asked again: a new chain (its random source has moved on), to which
		// everything below applies just the same
		n2 := 1 + c.Intn(n+2)
		crts, err = cc.Generate(bg, uint64(n2))
		r.Probe("certchain_generated_again")
		r.Tracef("second Generate(%d)", n2)
		if err != nil {
			e.fail("certchain_generate_failed", "regenerate", "a second certchain.Generate(%d) on the same generator failed: %v", n2, err)
			return
		}
		n = n2
	}
	if c.Chance(400) {
		// a chain it generated must be accepted by a generator of its own kind over the same EC
		cc2, err := certchain.New(certchain.WithEC(w), certchain.WithManifest(m), certchain.WithSignVerifier(g.Sig), certchain.WithSeed(int64(c.Intn(1<<30))))
		if err != nil {
			kernel.Infra("certchain.New: %v", err)
		}
		r.Probe("certchain_validated_by_fresh_instance")
		if err := cc2.Validate(bg, crts); err != nil {
			e.fail("certchain_rejects_own_chain", "validate", "a fresh certchain instance over the same EC and manifest rejects the generated chain of %d certificates: %v", len(crts), err)
			return
		}
	}
	// reference rule
	refCommittee := func(k uint64) *ecworld.Block {
		if k < m.InitialInstance+m.CommitteeLookback {
			return ecworld.AtOrBefore(w.Head, m.BootstrapEpoch-m.EC.Finality)
		}
		idx := k - m.CommitteeLookback - m.InitialInstance
		if idx >= uint64(len(crts)) {
			return nil
		}
		return w.ByKey(crts[idx].ECChain.Head().Key)
	}
	distinct := 0
	for k := m.InitialInstance; k <= m.InitialInstance+uint64(n)+m.CommitteeLookback-1; k++ {
		want := refCommittee(k)
		if want == nil {
			continue
		}
		got, err := cc.GetCommittee(bg, k)
		r.Steps++
		if err != nil {
			if k <= m.InitialInstance+uint64(n) {
				e.fail("certchain_committee_unavailable", "committee", "certchain.GetCommittee(%d) failed although certificate %d exists: %v", k, k-m.CommitteeLookback, err)
				return
			}
			continue
		}
		if k >= m.InitialInstance+m.CommitteeLookback {
			r.Probe("committee_by_lookback")
			alt := w.ByKey(crts[min(uint64(len(crts))-1, k-m.CommitteeLookback-m.InitialInstance+1)].ECChain.Head().Key)
			if alt != nil && !bytes.Equal(certgen.TableBytes(alt.Table), certgen.TableBytes(want.Table)) {
				distinct++
			}
		}
		if !bytes.Equal(certgen.TableBytes(certgen.Canon(got.PowerTable.Entries)), certgen.TableBytes(certgen.Canon(want.Table))) || !bytes.Equal(got.Beacon, want.B) {
			e.fail("certchain_committee_mismatch", "committee",
				"certchain committee of instance %d (initial %d, look-back %d) is not the table/beacon at the head finalised by instance %d (epoch %d): got %d entries beacon %q, want %d entries beacon %q",
				k, m.InitialInstance, m.CommitteeLookback, k-m.CommitteeLookback, want.Ep, len(got.PowerTable.Entries), got.Beacon, len(want.Table), want.B)
			return
		}
	}
	if distinct > 0 {
		r.Probe("lookback_shift_would_be_visible")
	}
	// "accepts exactly": a forged variant of a generated certificate must be judged by the
	// generator's Validate the way a node's certificate validation judges it
	if e.viol == nil && len(crts) > 0 && c.Chance(350) {
		i := c.Intn(len(crts))
		k := m.InitialInstance + uint64(i)
		comBlk := refCommittee(k)
		if comBlk != nil {
			tbl := certgen.Canon(comBlk.Table)
			forged := *crts[i]
			// scaled powers (exact arithmetic) of the committee
			total := new(big.Int)
			for _, en := range tbl {
				total.Add(total, en.Power.Int)
			}
			var idx []int
			_ = forged.Signers.ForEach(func(b uint64) error { idx = append(idx, int(b)); return nil })
			what, bitFlip := "", false
			switch c.Intn(3) {
			case 0: // one more signer (preferably one whose scaled power is zero), aggregate recomputed
				add := -1
				for j, en := range tbl {
					in := false
					for _, x := range idx {
						in = in || x == j
					}
					x := new(big.Int).Mul(en.Power.Int, big.NewInt(65535))
					zero := x.Div(x, total).Sign() == 0
					if !in && (add < 0 || zero) {
						add = j
					}
				}
				if add >= 0 {
					idx = append(idx, add)
					sort.Ints(idx)
					what = fmt.Sprintf("signer %d added and the aggregate recomputed", add)
				}
			case 1: // a signer dropped, aggregate recomputed
				if len(idx) > 1 {
					d := c.Intn(len(idx))
					idx = append(append([]int(nil), idx[:d]...), idx[d+1:]...)
					what = "one signer dropped and the aggregate recomputed"
				}
			case 2:
				what, bitFlip = "one bit of the aggregate flipped", true
			}
			if what != "" {
				if !bitFlip { // recompute the aggregate for the new signer set
					payload := gpbft.Payload{Instance: k, Phase: gpbft.DECIDE_PHASE, SupplementalData: forged.SupplementalData, Value: forged.ECChain}
					msg := payload.MarshalForSigning(m.NetworkName)
					sigs := make([][]byte, len(idx))
					for j, x := range idx {
						sg, err := g.Sig.Sign(bg, tbl[x].PubKey, msg)
						if err != nil {
							kernel.Infra("sign: %v", err)
						}
						sigs[j] = sg
					}
					agg, err := g.Sig.Aggregate(tbl.PublicKeys())
					if err != nil {
						kernel.Infra("aggregate: %v", err)
					}
					as, err := agg.Aggregate(idx, sigs)
					if err != nil {
						kernel.Infra("aggregate: %v", err)
					}
					forged.Signers, forged.Signature = bitfieldOf(idx), as
				} else {
					forged.Signature = append([]byte(nil), forged.Signature...)
					forged.Signature[c.Intn(len(forged.Signature))] ^= 1 << uint(c.Intn(8))
				}
				chain := append(append([]*certs.FinalityCertificate(nil), crts[:i]...), &forged)
				first := refCommittee(m.InitialInstance)
				_, _, _, nodeErr := certs.ValidateFinalityCertificates(g.Sig, m.NetworkName, certgen.Canon(first.Table), m.InitialInstance, nil, chain...)
				cc3, err := certchain.New(certchain.WithEC(w), certchain.WithManifest(m), certchain.WithSignVerifier(g.Sig), certchain.WithSeed(int64(c.Intn(1<<30))))
				if err != nil {
					kernel.Infra("certchain.New: %v", err)
				}
				ccErr := cc3.Validate(bg, chain)
				r.Fault("forged_certificate_for_certchain")
				r.Tracef("forged certificate %d (%s): node %v, certchain %v", k, what, nodeErr, ccErr)
				if (nodeErr == nil) != (ccErr == nil) {
					e.fail("certchain_accepts_differently_from_node", "validate", "certificate %d with %s: a node's certificate validation says %v, certchain.Validate says %v", k, what, nodeErr, ccErr)
					return
				}
			}
		}
	}
	// the node's own rule over the same EC and the same certificates (store holds certificates up
	// to k-lookback only, so the node derives the table from EC at the look-back head)
	ds := simds.New()
	initial, err := w.GetPowerTable(bg, ecworld.AtOrBefore(w.Head, m.BootstrapEpoch-m.EC.Finality).K)
	if err != nil {
		kernel.Infra("initial table: %v", err)
	}
	cs, err := certstore.CreateStore(bg, ds, m.InitialInstance, initial)
	if err != nil {
		kernel.Infra("CreateStore: %v", err)
	}
	in := f3.VerifNewInputs(m, cs, w, g.Sig, clock.NewMock())
	for i, ct := range crts {
		if err := cs.Put(bg, ct); err != nil {
			// a generator whose committees disagree with its own deltas cannot feed a node
			e.fail("certchain_chain_rejected_by_store", "store", "certificate %d generated by certchain is rejected by the certificate store: %v", ct.GPBFTInstance, err)
			return
		}
		k := ct.GPBFTInstance + m.CommitteeLookback
		if m.CommitteeLookback < 2 {
			continue // the store itself already knows the table for k
		}
		nodeCom, err := in.GetCommittee(bg, k)
		if err != nil {
			e.fail("node_committee_unavailable", "node", "node GetCommittee(%d) failed with certificates up to %d: %v", k, ct.GPBFTInstance, err)
			return
		}
		ccCom, err := cc.GetCommittee(bg, k)
		if err != nil {
			continue
		}
		r.Steps++
		r.Probe("node_vs_certchain_compared")
		if !bytes.Equal(certgen.TableBytes(certgen.Canon(nodeCom.PowerTable.Entries)), certgen.TableBytes(certgen.Canon(ccCom.PowerTable.Entries))) || !bytes.Equal(nodeCom.Beacon, ccCom.Beacon) {
			e.fail("certchain_differs_from_node", "node", "instance %d: certchain committee (%d entries, beacon %q) differs from the node's (%d entries, beacon %q) over the same EC and certificates (cert #%d)",
				k, len(ccCom.PowerTable.Entries), ccCom.Beacon, len(nodeCom.PowerTable.Entries), nodeCom.Beacon, i)
			return
		}
	}
	_ = certs.FinalityCertificate{}
}

func runC19(prop, tier string, c *kernel.Chooser, r *kernel.Recorder) *kernel.Violation {
	e := &env{c: c, r: r, prop: prop}
	if c.Chance(500) {
		runC19a(e, tier)
	} else {
		runC19b(e, tier)
	}
	return e.viol
}
