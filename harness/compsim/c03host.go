package compsim

import (
	"bytes"
	"fmt"
	"time"

	f3 "github.com/filecoin-project/go-f3"
	"github.com/filecoin-project/go-f3/certs"
	"github.com/filecoin-project/go-f3/certstore"
	"github.com/filecoin-project/go-f3/gpbft"
	"github.com/filecoin-project/go-f3/internal/clock"
	"github.com/filecoin-project/go-f3/manifest"
	"github.com/filecoin-project/go-f3/sim/signing"
	"github.com/filecoin-project/go-f3/zz_verif/certgen"
	"github.com/filecoin-project/go-f3/zz_verif/ecworld"
	"github.com/filecoin-project/go-f3/zz_verif/kernel"
	"github.com/filecoin-project/go-f3/zz_verif/simds"
)

// C03, the node's part (host.go saveDecision): a reported decision is turned into a finality
// certificate with the delta towards the next committee, validated and stored. Over a seeded EC
// world with evolving power tables a sequence of genuinely signed decisions for consecutive
// instances - across the committee look-back boundary - is handed to the real host code over a
// real certificate store; every valid decision must be saved, the stored certificate must carry
// exactly the delta from the instance's committee to the next one (the reference look-back rule)
// and must be accepted by certificate validation on another node holding the same table; a
// decision signed by less than a strong quorum must be refused and leave the store unchanged.
func runC03host(prop, tier string, c *kernel.Chooser, r *kernel.Recorder) *kernel.Violation {
	e := &env{c: c, r: r, prop: prop}
	if c.Chance(40) {
		blsSlice(e)
		return e.viol
	}
	g := certgen.New(c, true)
	start := time.Date(2024, 1, 1, 0, 0, 0, 0, time.UTC)
	period := time.Duration(1+c.Intn(30)) * time.Second
	m := manifest.LocalDevnetManifest()
	m.InitialInstance = uint64(c.Intn(4))
	m.CommitteeLookback = uint64(2 + c.Intn(6))
	m.BootstrapEpoch = int64(3 + c.Intn(15))
	m.EC.Finality = int64(c.Intn(int(min(m.BootstrapEpoch, 5)) + 1))
	m.EC.Period = period
	g.NN = m.NetworkName
	// canonical chain with null rounds and evolving tables
	w := ecworld.New(start, period, g.InitialTable(2+c.Intn(4)))
	cur := w.Head
	canon := []*ecworld.Block{cur}
	tbl := cur.Table
	nEpochs := int64(80 + c.Intn(100))
	for ep := int64(1); ep <= nEpochs; ep++ {
		if ep > 1 && c.Chance(150) {
			continue
		}
		if c.Chance(300) {
			tbl = g.Evolve(tbl)
		}
		cur = w.Extend(cur, ep, tbl)
		canon = append(canon, cur)
	}
	w.Head = cur
	boot := ecworld.AtOrBefore(cur, m.BootstrapEpoch-m.EC.Finality)
	initial := certgen.Canon(boot.Table)
	pos := map[*ecworld.Block]int{}
	for i, b := range canon {
		pos[b] = i
	}
	cs, err := certstore.CreateStore(bg, simds.New(), m.InitialInstance, initial)
	if err != nil {
		kernel.Infra("CreateStore: %v", err)
	}
	host := f3.VerifNewHost(bg, m, cs, w, g.Sig, clock.NewMock())
	var heads []*ecworld.Block
	committee := func(k uint64) gpbft.PowerEntries { // reference look-back rule
		if k < m.InitialInstance+m.CommitteeLookback {
			return initial
		}
		return certgen.Canon(heads[k-m.CommitteeLookback-m.InitialInstance].Table)
	}
	toTS := func(b *ecworld.Block) *gpbft.TipSet {
		cid, _ := certs.MakePowerTableCID(b.Table)
		return &gpbft.TipSet{Epoch: b.Ep, Key: b.K, PowerTable: cid}
	}
	n := 1 + c.Intn(int(m.CommitteeLookback)+4)
	r.Sample["config"] = fmt.Sprintf("initial=%d lookback=%d bootstrap=%d finality=%d decisions=%d", m.InitialInstance, m.CommitteeLookback, m.BootstrapEpoch, m.EC.Finality, n)
	r.Tracef("config %s", r.Sample["config"])
	prev := pos[boot]
	changed := 0
	for i := 0; i < n && e.viol == nil; i++ {
		r.Steps++
		k := m.InitialInstance + uint64(i)
		adv := c.Intn(5)
		if prev+adv >= len(canon)-1 {
			adv = max(0, len(canon)-2-prev)
		}
		hp := prev + adv
		var tss []*gpbft.TipSet
		for p := prev; p <= hp; p++ {
			tss = append(tss, toTS(canon[p]))
		}
		chain := &gpbft.ECChain{TipSets: tss}
		heads = append(heads, canon[hp])
		curT, nextT := committee(k), committee(k+1)
		if !bytes.Equal(certgen.TableBytes(curT), certgen.TableBytes(nextT)) {
			changed++
			r.Probe("decision_with_committee_change")
		}
		if k+1 == m.InitialInstance+m.CommitteeLookback {
			r.Probe("decision_at_lookback_boundary")
		}
		if c.Chance(120) {
			// under-powered decision first: must be refused, nothing stored
			g.Weak = true
			bad := g.Cert(k, chain, curT, nextT)
			g.Weak = false
			before := cs.Latest()
			_, err := host.SaveDecision(bg, &gpbft.Justification{Vote: gpbft.Payload{Instance: k, Phase: gpbft.DECIDE_PHASE, SupplementalData: bad.SupplementalData, Value: chain}, Signers: bad.Signers, Signature: bad.Signature})
			r.Fault("under_powered_decision")
			if err == nil || cs.Latest() != before {
				e.fail("under_powered_decision_saved", "host", "the host saved a decision for instance %d signed by less than a strong quorum (error: %v)", k, err)
				break
			}
		}
		ref := g.Cert(k, chain, curT, nextT) // genuine strong-quorum signatures over the DECIDE payload
		dec := &gpbft.Justification{Vote: gpbft.Payload{Instance: k, Phase: gpbft.DECIDE_PHASE, SupplementalData: ref.SupplementalData, Value: chain}, Signers: ref.Signers, Signature: ref.Signature}
		got, err := host.SaveDecision(bg, dec)
		r.Tracef("SaveDecision(%d, %d tipsets, delta %d) -> %v", k, len(tss), len(ref.PowerTableDelta), err)
		if err != nil {
			e.fail("valid_decision_not_saved", "host", "the host failed to turn the valid decision of instance %d (initial %d, look-back %d, committee change %v) into a stored certificate: %v",
				k, m.InitialInstance, m.CommitteeLookback, len(ref.PowerTableDelta) > 0, err)
			break
		}
		if l := cs.Latest(); l == nil || l.GPBFTInstance != k || !bytes.Equal(certgen.CertBytes(l), certgen.CertBytes(got)) {
			e.fail("decision_not_stored", "host", "after saving the decision of instance %d the store's latest certificate is %v", k, l)
			break
		}
		if applied := certgen.Apply(curT, got.PowerTableDelta); !bytes.Equal(certgen.TableBytes(applied), certgen.TableBytes(nextT)) {
			e.fail("certificate_wrong_delta", "host", "the certificate the host built for instance %d carries a delta that does not lead from the instance's committee to the committee of instance %d (look-back rule)", k, k+1)
			break
		}
		// another node holding the same table accepts it
		var base *gpbft.TipSet
		if _, _, _, err := certs.ValidateFinalityCertificates(g.Sig, m.NetworkName, curT, k, base, got); err != nil {
			e.fail("certificate_rejected_elsewhere", "host", "the certificate the host built for instance %d is rejected by certificate validation against the same power table: %v", k, err)
			break
		}
		prev = hp
	}
	r.Sample["outcome"] = fmt.Sprintf("saved=%d committee_changes=%d", len(heads), changed)
	return e.viol
}

// blsSlice: the same statement with real BLS signatures, whose aggregation coefficients depend on
// the whole key roster: a committee with members whose scaled power is zero, a decision signed by
// a strong quorum, turned into a certificate, must be accepted by certificate validation.
func blsSlice(e *env) {
	c, r := e.c, e.r
	bls := signing.NewBLSBackend()
	n := 3 + c.Intn(3)
	dust := c.Intn(3)
	var tbl gpbft.PowerEntries
	for i := 0; i < n+dust; i++ {
		pub, _ := bls.GenerateKey()
		p := int64(1_000_000 + c.Intn(1_000_000))
		if i >= n {
			p = 1 // scales to zero
		}
		tbl = append(tbl, gpbft.PowerEntry{ID: gpbft.ActorID(i + 1), Power: gpbft.NewStoragePower(p), PubKey: pub})
	}
	tbl = certgen.Canon(tbl)
	cid, err := certs.MakePowerTableCID(tbl)
	if err != nil {
		kernel.Infra("cid: %v", err)
	}
	k := uint64(c.Intn(5))
	chain := &gpbft.ECChain{TipSets: []*gpbft.TipSet{certgen.TipSet(10, "bls-base"), certgen.TipSet(11, "bls-head")}}
	payload := gpbft.Payload{Instance: k, Phase: gpbft.DECIDE_PHASE, SupplementalData: gpbft.SupplementalData{PowerTable: cid}, Value: chain}
	nn := gpbft.NetworkName("verif-bls")
	msg := payload.MarshalForSigning(nn)
	// all members with power sign (certainly a strong quorum); optionally one fewer if still strong
	var idx []int
	for i, en := range tbl {
		if en.Power.Int64() > 1 {
			idx = append(idx, i)
		}
	}
	sigs := make([][]byte, len(idx))
	for j, i := range idx {
		s, err := bls.Sign(bg, tbl[i].PubKey, msg)
		if err != nil {
			kernel.Infra("bls sign: %v", err)
		}
		sigs[j] = s
	}
	agg, err := bls.Aggregate(tbl.PublicKeys())
	if err != nil {
		kernel.Infra("bls aggregate: %v", err)
	}
	as, err := agg.Aggregate(idx, sigs)
	if err != nil {
		kernel.Infra("bls aggregate: %v", err)
	}
	just := &gpbft.Justification{Vote: payload, Signers: bitfieldOf(idx), Signature: as}
	cert, err := certs.NewFinalityCertificate(nil, just)
	if err != nil {
		kernel.Infra("NewFinalityCertificate: %v", err)
	}
	r.Probe("bls_certificate")
	if dust > 0 {
		r.Probe("bls_certificate_with_zero_power_members")
	}
	if _, _, _, err := certs.ValidateFinalityCertificates(bls, nn, tbl, k, nil, cert); err != nil {
		e.fail("certificate_rejected_elsewhere", "bls", "a certificate over a decision signed with real BLS keys by all %d members holding power (table of %d, %d of them with zero scaled power) is rejected by certificate validation: %v", len(idx), len(tbl), dust, err)
	}
}
