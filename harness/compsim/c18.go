package compsim

import (
	"bytes"
	"context"
	"fmt"
	"time"

	"github.com/filecoin-project/go-f3/chainexchange"
	"github.com/filecoin-project/go-f3/gpbft"
	"github.com/filecoin-project/go-f3/internal/clock"
	"github.com/filecoin-project/go-f3/zz_verif/kernel"
	pubsub "github.com/libp2p/go-libp2p-pubsub"
)

// C18: chain exchange admission, retrieval by key, retention of wanted chains, pruning.

type cxInst struct {
	wantedKeys map[gpbft.ECChainKey]bool           // keys that count against the wanted capacity
	supplied   map[gpbft.ECChainKey]*gpbft.ECChain // wanted keys whose chain the node has been given
	overflow   bool
}

type c18 struct {
	*env
	cx         *chainexchange.PubSubChainExchange
	clk        *clock.Mock
	progress   gpbft.InstanceProgress
	lookahead  uint64
	maxAge     time.Duration
	capW, capD int
	inst       map[uint64]*cxInst
	pruned     uint64
	bases      map[uint64]*gpbft.TipSet
	past       map[uint64][]*gpbft.ECChain // chains admitted earlier, per instance (for re-broadcasts)
	notified   int
}

func (s *c18) NotifyChainDiscovered(_ context.Context, instance uint64, chain *gpbft.ECChain) {
	s.notified++
}

func (s *c18) at(k uint64) *cxInst {
	in := s.inst[k]
	if in == nil {
		in = &cxInst{wantedKeys: map[gpbft.ECChainKey]bool{}, supplied: map[gpbft.ECChainKey]*gpbft.ECChain{}}
		s.inst[k] = in
	}
	return in
}

func (s *c18) base(k uint64) *gpbft.TipSet {
	b := s.bases[k]
	if b == nil {
		b = &gpbft.TipSet{Epoch: int64(100 * (k + 1)), Key: []byte(fmt.Sprintf("base-%d", k)), PowerTable: gpbft.MakeCid([]byte("pt"))}
		s.bases[k] = b
	}
	return b
}

// chain draws a chain for instance k: on the instance's base (or a foreign base), n tipsets.
func (s *c18) chain(k uint64, n int, tag string, foreign bool) *gpbft.ECChain {
	b := s.base(k)
	if foreign {
		b = &gpbft.TipSet{Epoch: b.Epoch, Key: []byte("foreign-" + tag), PowerTable: b.PowerTable}
	}
	ts := []*gpbft.TipSet{b}
	for i := 1; i < n; i++ {
		ts = append(ts, &gpbft.TipSet{Epoch: b.Epoch + int64(i), Key: []byte(fmt.Sprintf("%s-%d-%d", tag, k, i)), PowerTable: b.PowerTable})
	}
	return &gpbft.ECChain{TipSets: ts}
}

func prefixes(c *gpbft.ECChain) []*gpbft.ECChain {
	var out []*gpbft.ECChain
	for l := 1; l <= c.Len(); l++ {
		out = append(out, &gpbft.ECChain{TipSets: c.TipSets[:l:l]})
	}
	return out
}

func sameChain(a, b *gpbft.ECChain) bool {
	// own comparison (not the repository's Equal/Eq helpers, which a change under test may alter)
	if a == nil || b == nil {
		return (a == nil || len(a.TipSets) == 0) && (b == nil || len(b.TipSets) == 0)
	}
	if len(a.TipSets) != len(b.TipSets) {
		return false
	}
	for i := range a.TipSets {
		x, y := a.TipSets[i], b.TipSets[i]
		if x == nil || y == nil {
			if x != y {
				return false
			}
			continue
		}
		if x.Epoch != y.Epoch || !bytes.Equal(x.Key, y.Key) || x.PowerTable != y.PowerTable || x.Commitments != y.Commitments {
			return false
		}
	}
	return true
}

// lookup performs GetChainByInstance and maintains the model.
func (s *c18) lookup(k uint64, want *gpbft.ECChain, when string) (found bool) {
	key := want.Key()
	got, ok := s.cx.GetChainByInstance(bg, k, key)
	if ok {
		if got.Key() != key || !sameChain(got, want) {
			s.fail("lookup_wrong_chain", "lookup", "%s: lookup of key %x for instance %d returned a chain with key %x (%d tipsets)", when, key[:6], k, keyOf(got), got.Len())
			return true
		}
	}
	if k >= s.pruned {
		in := s.at(k)
		in.wantedKeys[key] = true
		if len(in.wantedKeys) > s.capW {
			in.overflow = true
		}
		if ok {
			in.supplied[key] = want
		}
	}
	return ok
}

func keyOf(c *gpbft.ECChain) []byte { k := c.Key(); return k[:6] }

// checkRetention: every wanted key that has been supplied must still be retrievable.
func (s *c18) checkRetention(when string) {
	for k, in := range s.inst {
		if in.overflow || k < s.pruned {
			continue
		}
		// deterministic order
		keys := make([]gpbft.ECChainKey, 0, len(in.supplied))
		for key := range in.supplied {
			keys = append(keys, key)
		}
		sortKeys(keys)
		for _, key := range keys {
			want := in.supplied[key]
			got, ok := s.cx.GetChainByInstance(bg, k, key)
			if !ok {
				s.fail("wanted_chain_lost", "retention", "%s: chain %x of instance %d was asked for and has been supplied, but is no longer retrievable (wanted keys %d <= capacity %d, discovered capacity %d)",
					when, key[:6], k, len(in.wantedKeys), s.capW, s.capD)
				return
			}
			if !sameChain(got, want) {
				s.fail("lookup_wrong_chain", "lookup", "%s: lookup of %x returned a different chain", when, key[:6])
				return
			}
		}
	}
}

func sortKeys(ks []gpbft.ECChainKey) {
	for i := 1; i < len(ks); i++ {
		for j := i; j > 0 && string(ks[j-1][:]) > string(ks[j][:]); j-- {
			ks[j-1], ks[j] = ks[j], ks[j-1]
		}
	}
}

// remote feeds one remote broadcast through the validator and, if accepted, into the cache.
func (s *c18) remote(k uint64, ch *gpbft.ECChain, ts int64, raw []byte, what string, expectAccept bool) bool {
	var data []byte
	if raw != nil {
		data = raw
	} else {
		var err error
		data, err = chainexchange.VerifEncode(s.cx, &chainexchange.Message{Instance: k, Chain: ch, Timestamp: ts})
		if err != nil {
			// not encodable: nothing a peer could have sent
			return false
		}
	}
	res, msg := chainexchange.VerifValidate(s.cx, bg, data)
	accepted := res == pubsub.ValidationAccept
	s.r.Tracef("remote %s k=%d len=%d -> %v", what, k, ch.Len(), res)
	if accepted != expectAccept {
		if accepted {
			s.fail("inadmissible_broadcast_admitted", what, "a broadcast that is %s was admitted (instance %d, progress %d, look-ahead %d, timestamp %d, now %d, max age %v)",
				what, k, s.progress.ID, s.lookahead, ts, s.clk.Now().UnixMilli(), s.maxAge)
		} else {
			s.fail("admissible_broadcast_refused", what, "a %s broadcast for instance %d was not admitted (verdict %v; progress %d, look-ahead %d, timestamp %d, now %d)",
				what, k, res, s.progress.ID, s.lookahead, ts, s.clk.Now().UnixMilli())
		}
		return false
	}
	if !accepted {
		s.r.Fault("rejected_" + what)
		return false
	}
	chainexchange.VerifCacheDiscovered(s.cx, bg, *msg)
	// model: wanted keys among its prefixes are now supplied
	in := s.at(k)
	for _, p := range prefixes(ch) {
		if in.wantedKeys[p.Key()] {
			in.supplied[p.Key()] = p
		}
	}
	return true
}

func runC18(prop, tier string, c *kernel.Chooser, r *kernel.Recorder) *kernel.Violation {
	e := &env{c: c, r: r, prop: prop}
	s := &c18{env: e, inst: map[uint64]*cxInst{}, bases: map[uint64]*gpbft.TipSet{}, past: map[uint64][]*gpbft.ECChain{}}
	s.clk = clock.NewMock()
	s.clk.Set(time.Date(2024, 1, 1, 0, 0, 0, 0, time.UTC))
	s.lookahead = uint64(c.Intn(5))
	s.maxAge = time.Duration(1+c.Intn(20)) * time.Second
	s.capW = []int{4, 8, 20, 300}[c.Intn(4)]
	s.capD = []int{4, 8, 20, 300}[c.Intn(4)]
	s.progress = gpbft.InstanceProgress{Instant: gpbft.Instant{ID: uint64(c.Intn(5))}}
	if c.Chance(700) {
		s.progress.Input = s.chain(s.progress.ID, 1+c.Intn(4), "input", false)
	}
	compress := c.Chance(120) // zstd costs ~1 ms per message: a small share of runs
	if compress && s.capD > 20 {
		s.capD = 20
	}
	var err error
	s.cx, err = chainexchange.NewPubSubChainExchange(
		chainexchange.WithPubSub(new(pubsub.PubSub)), chainexchange.WithTopicName("verif"),
		chainexchange.WithProgress(func() gpbft.InstanceProgress { return s.progress }),
		chainexchange.WithMaxInstanceLookahead(s.lookahead),
		chainexchange.WithMaxDiscoveredChainsPerInstance(s.capD), chainexchange.WithMaxWantedChainsPerInstance(s.capW),
		chainexchange.WithMaxTimestampAge(s.maxAge), chainexchange.WithClock(s.clk), chainexchange.WithCompression(compress),
		chainexchange.WithListener(s))
	if err != nil {
		kernel.Infra("NewPubSubChainExchange: %v", err)
	}
	steps := 20 + c.Intn(60)
	if tier == "thorough" {
		steps = 50 + c.Intn(300)
	}
	r.Sample["config"] = fmt.Sprintf("progress=%d input=%v lookahead=%d maxAge=%v capW=%d capD=%d steps=%d", s.progress.ID, s.progress.Input != nil, s.lookahead, s.maxAge, s.capW, s.capD, steps)
	r.Tracef("config %s", r.Sample["config"])
	tagN := 0
	for i := 0; i < steps && s.viol == nil; i++ {
		r.Steps++
		now := s.clk.Now().UnixMilli()
		k := s.progress.ID + uint64(c.Intn(int(s.lookahead)+1))
		tagN++
		tag := fmt.Sprintf("c%d", tagN)
		switch c.Pick([]int{14, 18, 10, 10, 8, 8, 8, 6, 8, 5, 5}) {
		case 0: // ask for a chain not yet known (miss), then maybe receive it
			ch := s.chain(k, 2+c.Intn(6), tag, false)
			if s.lookup(k, ch, "first lookup") {
				s.fail("lookup_hit_unknown", "lookup", "lookup of a never-seen key returned a chain")
				break
			}
			if c.Chance(700) {
				s.remote(k, ch, now-int64(c.Intn(int(s.maxAge.Milliseconds())+1)), nil, "valid", true)
				r.Probe("asked_then_received")
			}
		case 1: // valid remote broadcast (receive then maybe ask); sometimes a re-broadcast of an earlier chain
			n := 1 + c.Intn(8)
			if c.Chance(50) {
				n = gpbft.ChainMaxLen
			}
			ch := s.chain(k, n, tag, false)
			if old := s.past[k]; len(old) > 0 && c.Chance(300) {
				ch = old[c.Intn(len(old))]
				n = ch.Len()
				r.Probe("rebroadcast_of_earlier_chain")
			} else if len(s.past[k]) < 16 {
				s.past[k] = append(s.past[k], ch)
			}
			if !s.remote(k, ch, now-int64(c.Intn(int(s.maxAge.Milliseconds())+1)), nil, "valid", true) {
				break
			}
			if n <= s.capD && c.Chance(250) {
				// ask for the full chain only (it becomes wanted, its prefixes stay unsolicited)
				if !s.at(k).overflow && !s.lookup(k, ch, "after admission") {
					s.fail("admitted_chain_not_retrievable", "admission", "chain of %d tipsets admitted for instance %d is not retrievable right after admission (discovered capacity %d)", n, k, s.capD)
				}
				r.Probe("asked_full_chain_only")
			} else if n <= s.capD && c.Chance(700) {
				// right after an admission that fits the capacity every prefix is retrievable
				for _, p := range prefixes(ch) {
					if s.at(k).overflow {
						break
					}
					if !s.lookup(k, p, "after admission") {
						s.fail("admitted_chain_not_retrievable", "admission", "prefix (%d tipsets) of a chain of %d tipsets admitted for instance %d is not retrievable right after admission (discovered capacity %d)", p.Len(), n, k, s.capD)
						break
					}
				}
				r.Probe("received_then_asked")
			}
		case 2: // own broadcast
			ch := s.chain(k, 1+c.Intn(6), tag, false)
			chainexchange.VerifCacheWanted(s.cx, bg, chainexchange.Message{Instance: k, Chain: ch, Timestamp: now})
			in := s.at(k)
			for _, p := range prefixes(ch) {
				in.wantedKeys[p.Key()] = true
				in.supplied[p.Key()] = p
			}
			if len(in.wantedKeys) > s.capW {
				in.overflow = true
			}
			r.Probe("own_broadcast")
		case 3: // flood of unsolicited chains, larger than the discovered capacity
			n := s.capD + 1 + c.Intn(s.capD+4)
			if n > 700 {
				n = 700
			}
			for j := 0; j < n && s.viol == nil; j++ {
				s.remote(k, s.chain(k, 1+c.Intn(2)+1, fmt.Sprintf("%s-f%d", tag, j), false), now, nil, "valid", true)
			}
			r.Fault("unsolicited_flood")
			s.checkRetention("after a flood of unsolicited chains")
		case 4: // past or too distant instance
			if c.Chance(500) && s.progress.ID > 0 {
				kk := s.progress.ID - 1 - uint64(c.Intn(int(min(s.progress.ID, 3))))
				s.remote(kk, s.chain(kk, 2, tag, false), now, nil, "for a past instance", false)
			} else {
				kk := s.progress.ID + s.lookahead + 1 + uint64(c.Intn(3))
				s.remote(kk, s.chain(kk, 2, tag, false), now, nil, "beyond the instance look-ahead", false)
			}
		case 5: // timestamp window edges
			age := s.maxAge.Milliseconds()
			switch c.Intn(4) {
			case 0:
				s.remote(k, s.chain(k, 2, tag, false), now-age, nil, "valid", true) // exactly at the lower edge
			case 1:
				s.remote(k, s.chain(k, 2, tag, false), now-age-1-int64(c.Intn(5000)), nil, "older than the timestamp window", false)
			case 2:
				s.remote(k, s.chain(k, 2, tag, false), now+1+int64(c.Intn(5000)), nil, "timestamped in the future", false)
			case 3:
				s.remote(k, s.chain(k, 2, tag, false), now, nil, "valid", true)
			}
		case 6: // undecodable / empty / malformed
			switch c.Intn(4) {
			case 0:
				s.remote(k, &gpbft.ECChain{}, now, c.Bytes(1+c.Intn(40)), "undecodable", false)
			case 1:
				s.remote(k, &gpbft.ECChain{}, now, nil, "empty", false)
			case 2:
				ch := s.chain(k, 3, tag, false)
				ch.TipSets[2].Epoch = ch.TipSets[1].Epoch // not increasing
				s.remote(k, ch, now, nil, "malformed", false)
			case 3:
				ch := s.chain(k, 2, tag, false)
				ch.TipSets[1].Key = nil
				s.remote(k, ch, now, nil, "malformed", false)
			}
		case 7: // base contradicting the current input
			if s.progress.Input != nil {
				s.remote(s.progress.ID, s.chain(s.progress.ID, 2, tag, true), now, nil, "based on a tipset that contradicts the current instance's input", false)
			} else {
				// without a known input the base cannot be judged: admitted
				s.remote(s.progress.ID, s.chain(s.progress.ID, 2, tag, true), now, nil, "valid", true)
			}
		case 8: // clock step / retention check
			s.clk.Add(time.Duration(c.Intn(3000)) * time.Millisecond)
			s.checkRetention("periodic check")
		case 9: // progress change
			if c.Chance(500) {
				s.progress.ID += uint64(c.Intn(2))
				s.progress.Input = nil
				if c.Chance(700) {
					s.progress.Input = s.chain(s.progress.ID, 1+c.Intn(3), "input", false)
				}
			}
		case 10: // prune
			i := s.progress.ID
			if c.Chance(300) && i > 0 {
				i--
			}
			if i < s.pruned {
				break
			}
			// remember something below i to verify it is gone
			var probeK uint64
			var probe *gpbft.ECChain
			for kk, in := range s.inst {
				if kk < i && kk >= s.pruned {
					for _, ch := range in.supplied {
						if probe == nil || kk < probeK || (kk == probeK && string(keyOf(ch)) < string(keyOf(probe))) {
							probeK, probe = kk, ch
						}
					}
				}
			}
			// a chain admitted just now at the boundary instance, never asked for: pruning below i
			// must leave it alone
			var keep *gpbft.ECChain
			if i >= s.progress.ID && i <= s.progress.ID+s.lookahead && !s.at(i).overflow {
				cand := s.chain(i, 2+c.Intn(min(3, s.capD-1)+0), tag+"-keep", false)
				if cand.Len() <= s.capD && s.remote(i, cand, now, nil, "valid", true) {
					keep = cand
				}
			}
			if err := s.cx.RemoveChainsByInstance(bg, i); err != nil {
				s.fail("prune_failed", "prune", "RemoveChainsByInstance(%d) failed: %v", i, err)
				break
			}
			s.pruned = i
			for kk := range s.inst {
				if kk < i {
					delete(s.inst, kk)
				}
			}
			r.Probe("prune")
			for kk := range s.past {
				if kk < i {
					delete(s.past, kk)
				}
			}
			if keep != nil && s.viol == nil {
				for _, p := range prefixes(keep) {
					if !s.lookup(i, p, "after prune") {
						s.fail("prune_removed_live_instance", "prune", "pruning below %d removed a chain (prefix of %d tipsets) admitted for instance %d itself", i, p.Len(), i)
						break
					}
				}
			}
			if probe != nil {
				if _, ok := s.cx.GetChainByInstance(bg, probeK, probe.Key()); ok {
					s.fail("pruned_chain_retrievable", "prune", "after pruning below %d a chain of instance %d is still retrievable", i, probeK)
				}
			}
			s.checkRetention("after prune")
		}
	}
	if s.viol == nil {
		s.checkRetention("end of history")
	}
	return s.viol
}
