package compsim

import (
	"bytes"
	"fmt"
	"time"

	f3 "github.com/filecoin-project/go-f3"
	"github.com/filecoin-project/go-f3/certs"
	"github.com/filecoin-project/go-f3/certstore"
	"github.com/filecoin-project/go-f3/gpbft"
	"github.com/filecoin-project/go-f3/internal/clock"
	"github.com/filecoin-project/go-f3/manifest"
	"github.com/filecoin-project/go-f3/zz_verif/certgen"
	"github.com/filecoin-project/go-f3/zz_verif/ecworld"
	"github.com/filecoin-project/go-f3/zz_verif/kernel"
	"github.com/filecoin-project/go-f3/zz_verif/simds"
)

// C15: proposals extend the finalised head along EC; committees derive from finality.

type c15 struct {
	*env
	w       *ecworld.World
	m       manifest.Manifest
	g       *certgen.Gen
	canon   []*ecworld.Block // canonical chain, index = position (not epoch)
	bootBlk *ecworld.Block
	crts    []*certs.FinalityCertificate
	heads   []*ecworld.Block // heads[i] = head block finalised by certificate i
	initial gpbft.PowerEntries
}

// committeeBlock returns the block whose table/beacon define committee(k), or nil while bootstrapping.
func (s *c15) committeeBlock(k uint64, ncerts int) (*ecworld.Block, bool) {
	if k < s.m.InitialInstance+s.m.CommitteeLookback {
		return nil, true
	}
	idx := int(k - s.m.CommitteeLookback - s.m.InitialInstance)
	if idx >= ncerts {
		return nil, false
	}
	return s.heads[idx], true
}

func (s *c15) committeeTable(k uint64, ncerts int) (gpbft.PowerEntries, bool) {
	b, ok := s.committeeBlock(k, ncerts)
	if !ok {
		return nil, false
	}
	if b == nil {
		return s.initial, true
	}
	return certgen.Canon(b.Table), true
}

func tableCid(t gpbft.PowerEntries) string {
	c, err := certs.MakePowerTableCID(t)
	if err != nil {
		kernel.Infra("cid: %v", err)
	}
	return c.String()
}

func runC15(prop, tier string, c *kernel.Chooser, r *kernel.Recorder) *kernel.Violation {
	e := &env{c: c, r: r, prop: prop}
	s := &c15{env: e, g: certgen.New(c, false)}
	start := time.Date(2024, 1, 1, 0, 0, 0, 0, time.UTC)
	period := time.Duration(1+c.Intn(30)) * time.Second
	m := manifest.LocalDevnetManifest()
	m.InitialInstance = uint64(c.Intn(4))
	m.CommitteeLookback = uint64(2 + c.Intn(8))
	m.BootstrapEpoch = int64(3 + c.Intn(15))
	m.EC.Finality = int64(c.Intn(int(min(m.BootstrapEpoch, 5)) + 1))
	m.EC.HeadLookback = c.Intn(6)
	m.EC.Period = period
	m.Gpbft.ChainProposedLength = []int{1, 2, 5, 20, 100, 128}[c.Intn(6)]
	s.m = m
	// ---- world: canonical chain with null rounds and evolving tables
	nEpochs := int64(60 + c.Intn(120))
	if c.Chance(100) {
		nEpochs = 300 + int64(c.Intn(100)) // longer than 2 x 128
	}
	s.w = ecworld.New(start, period, s.g.InitialTable(2+c.Intn(4)))
	cur := s.w.Head
	s.canon = []*ecworld.Block{cur}
	tbl := cur.Table
	for ep := int64(1); ep <= nEpochs; ep++ {
		if ep > 1 && c.Chance(150) {
			continue // null round
		}
		if c.Chance(250) {
			tbl = s.g.Evolve(tbl)
		}
		cur = s.w.Extend(cur, ep, tbl)
		s.canon = append(s.canon, cur)
	}
	s.w.Head = cur
	s.bootBlk = ecworld.AtOrBefore(cur, m.BootstrapEpoch-m.EC.Finality)
	s.initial = certgen.Canon(s.bootBlk.Table)
	pos := map[*ecworld.Block]int{}
	for i, b := range s.canon {
		pos[b] = i
	}
	// ---- certificate history consistent with the look-back rule
	ncerts := c.Intn(8)
	if tier == "thorough" {
		ncerts = c.Intn(20)
	}
	headPos := pos[s.bootBlk]
	for i := 0; i < ncerts; i++ {
		adv := c.Intn(5)
		if c.Chance(60) {
			adv = 100 + c.Intn(28)
		}
		if headPos+adv >= len(s.canon)-1 {
			adv = max(0, len(s.canon)-2-headPos)
		}
		s.heads = append(s.heads, s.canon[headPos+adv])
		headPos += adv
	}
	toTS := func(b *ecworld.Block) *gpbft.TipSet {
		cid, _ := certs.MakePowerTableCID(b.Table)
		return &gpbft.TipSet{Epoch: b.Ep, Key: b.K, PowerTable: cid}
	}
	ds := simds.New()
	cs, err := certstore.CreateStore(bg, ds, m.InitialInstance, s.initial)
	if err != nil {
		kernel.Infra("CreateStore: %v", err)
	}
	prevPos := pos[s.bootBlk]
	for i := 0; i < ncerts; i++ {
		k := m.InitialInstance + uint64(i)
		curT, _ := s.committeeTable(k, ncerts)
		nextT, ok := s.committeeTable(k+1, ncerts)
		if !ok {
			kernel.Infra("no committee for %d", k+1)
		}
		hp := pos[s.heads[i]]
		var tss []*gpbft.TipSet
		for p := prevPos; p <= hp; p++ {
			tss = append(tss, toTS(s.canon[p]))
		}
		if len(tss) > gpbft.ChainMaxLen {
			kernel.Infra("chain too long")
		}
		ct := s.g.Cert(k, &gpbft.ECChain{TipSets: tss}, curT, nextT)
		s.crts = append(s.crts, ct)
		if err := cs.Put(bg, ct); err != nil {
			kernel.Infra("Put(%d): %v", k, err)
		}
		prevPos = hp
	}
	basePos := prevPos
	baseBlk := s.canon[basePos]
	clk := clock.NewMock()
	in := f3.VerifNewInputs(m, cs, s.w, s.g.Sig, clk)
	r.Sample["config"] = fmt.Sprintf("initial=%d lookback=%d bootstrap=%d finality=%d headLookback=%d period=%v proposedLen=%d epochs=%d certs=%d",
		m.InitialInstance, m.CommitteeLookback, m.BootstrapEpoch, m.EC.Finality, m.EC.HeadLookback, period, m.Gpbft.ChainProposedLength, nEpochs, ncerts)
	r.Tracef("config %s", r.Sample["config"])

	// ---- scenarios for the EC head and the clock
	rounds := 3 + c.Intn(6)
	for it := 0; it < rounds && s.viol == nil; it++ {
		r.Steps++
		var head *ecworld.Block
		descends := true
		kind := c.Pick([]int{40, 12, 12, 12, 12, 12})
		switch kind {
		case 0: // head on the canonical chain at or above the base
			head = s.canon[basePos+c.Intn(len(s.canon)-basePos)]
		case 1: // head behind the base
			if basePos == 0 || ncerts == 0 {
				continue // before the bootstrap tipset exists there is nothing to propose from
			}
			head = s.canon[c.Intn(basePos)]
			descends = false
			r.Fault("head_behind_base")
		case 2: // fork before the base: head does not descend from the base
			if basePos == 0 {
				continue
			}
			if ncerts == 0 || basePos <= pos[s.bootBlk] {
				continue // nothing below the bootstrap tipset may be re-organised (EC finality)
			}
			fp := pos[s.bootBlk] + c.Intn(basePos-pos[s.bootBlk])
			b := s.canon[fp]
			n := 1 + c.Intn(10)
			ep := max(b.Ep, m.BootstrapEpoch-m.EC.Finality) // nothing at or below the bootstrap epoch is re-organised
			for j := 0; j < n || ep <= baseBlk.Ep; j++ {
				ep += 1 + int64(c.Intn(2))
				b = s.w.Extend(b, ep, nil)
			}
			head = b
			descends = false
			r.Fault("fork_before_base")
		case 3: // fork at the base
			b := baseBlk
			n := 1 + c.Intn(8)
			ep := max(b.Ep, m.BootstrapEpoch-m.EC.Finality) // the bootstrap epoch itself is final
			for j := 0; j < n; j++ {
				ep += 1 + int64(c.Intn(2))
				b = s.w.Extend(b, ep, s.g.Evolve(b.Table))
			}
			head = b
			r.Fault("fork_at_base")
		case 4: // fork after the base
			fp := basePos + c.Intn(len(s.canon)-basePos)
			b := s.canon[fp]
			n := 1 + c.Intn(8)
			ep := max(b.Ep, m.BootstrapEpoch-m.EC.Finality)
			for j := 0; j < n; j++ {
				ep += 1 + int64(c.Intn(3))
				b = s.w.Extend(b, ep, nil)
			}
			head = b
			r.Fault("fork_after_base")
		case 5: // head == base
			head = baseBlk
		}
		if head.Ep < m.BootstrapEpoch-m.EC.Finality {
			continue // EC has not reached the bootstrap epoch yet: F3 is not running
		}
		s.w.Head = head
		// clock around the freshness cut of the would-be last tipset
		switch c.Intn(5) {
		case 0:
			clk.Set(head.TS)
		case 1:
			clk.Set(head.TS.Add(period - time.Nanosecond))
		case 2:
			clk.Set(head.TS.Add(period))
		case 3:
			clk.Set(head.TS.Add(period + time.Duration(c.Intn(1000))*time.Millisecond))
		case 4:
			clk.Set(head.TS.Add(time.Duration(1+c.Intn(100)) * period))
		}
		now := clk.Now()

		// ---- expected proposal: of the next instance, or of an instance whose certificate is
		// already in the store (it arrived through certificate exchange before the instance began)
		k := m.InitialInstance + uint64(ncerts)
		baseBlk := baseBlk
		if ncerts > 0 && c.Chance(300) {
			j := c.Intn(ncerts) // instance initial+j, certificate j exists
			k = m.InitialInstance + uint64(j)
			if j == 0 {
				baseBlk = s.bootBlk
			} else {
				baseBlk = s.heads[j-1]
			}
			r.Probe("proposal_for_instance_already_certified")
		}
		var want []*ecworld.Block
		_ = descends
		if ecworld.IsAncestor(baseBlk, head) {
			for b := head; b != baseBlk; b = b.Parent {
				want = append([]*ecworld.Block{b}, want...)
			}
		}
		if m.EC.HeadLookback > 0 {
			want = want[:max(0, len(want)-m.EC.HeadLookback)]
		}
		if n := len(want); n > 0 && now.Sub(want[n-1].TS) < period {
			want = want[:n-1]
			r.Probe("freshness_trim")
		}
		maxSuffix := min(gpbft.ChainMaxLen, m.Gpbft.ChainProposedLength) - 1
		if len(want) > maxSuffix {
			want = want[:maxSuffix]
			r.Probe("length_trim")
		}
		wantSuppTable, haveNext := s.committeeTable(k+1, ncerts)

		// EC error injection
		s.w.Fail = nil
		s.w.Calls = map[string]int{}
		failAt := -1
		if c.Chance(250) {
			failAt = c.Intn(12)
			n := 0
			s.w.Fail = func(method string) error {
				n++
				if n-1 == failAt {
					r.Fault("ec_error_" + method)
					return ecworld.ErrInjected
				}
				return nil
			}
		}
		supp, chain, err := in.GetProposal(bg, k)
		s.w.Fail = nil
		r.Tracef("head=%v kind=%d now=+%v failAt=%d -> len=%d err=%v", head, kind, now.Sub(head.TS), failAt, chain.Len(), err)
		if err != nil {
			if failAt < 0 && haveNext {
				s.fail("proposal_failed", "proposal", "GetProposal(%d) failed without any EC fault: %v", k, err)
			}
		} else {
			if !haveNext {
				s.fail("proposal_without_next_committee", "proposal", "GetProposal(%d) succeeded although committee %d is not derivable", k, k+1)
			}
			s.checkProposal(k, chain, supp, baseBlk, want, wantSuppTable, head, failAt)
		}
		// ---- committees: identical whatever the EC head is
		for kk := m.InitialInstance; kk <= m.InitialInstance+uint64(ncerts)+m.CommitteeLookback && s.viol == nil; kk++ {
			blk, ok := s.committeeBlock(kk, ncerts)
			com, err := in.GetCommittee(bg, kk)
			r.Steps++
			if !ok {
				if err == nil {
					s.fail("committee_without_history", "committee", "GetCommittee(%d) succeeded although certificate %d does not exist", kk, kk-m.CommitteeLookback)
				}
				continue
			}
			if err != nil {
				s.fail("committee_failed", "committee", "GetCommittee(%d) failed: %v", kk, err)
				continue
			}
			wt, _ := s.committeeTable(kk, ncerts)
			wantBeacon := s.bootBlk.B
			if blk != nil {
				wantBeacon = blk.B
				r.Probe("committee_by_lookback")
			} else if ncerts > 0 {
				// bootstrap phase with certificates: beacon of the first certificate's base
				wantBeacon = s.w.ByKey(s.crts[0].ECChain.Base().Key).B
			}
			if tableCid(certgen.Canon(com.PowerTable.Entries)) != tableCid(wt) {
				s.fail("committee_table_mismatch", "committee", "committee of instance %d (initial %d, look-back %d, %d certificates, EC head %v) has a table that is not the one at the head finalised by instance %d",
					kk, m.InitialInstance, m.CommitteeLookback, ncerts, head, kk-m.CommitteeLookback)
			} else if !bytes.Equal(com.Beacon, wantBeacon) {
				s.fail("committee_beacon_mismatch", "committee", "committee of instance %d has beacon %q, expected %q", kk, com.Beacon, wantBeacon)
			}
		}
	}
	return s.viol
}

func (s *c15) checkProposal(k uint64, chain *gpbft.ECChain, supp *gpbft.SupplementalData, base *ecworld.Block, want []*ecworld.Block, nextTable gpbft.PowerEntries, head *ecworld.Block, failAt int) {
	ctx := fmt.Sprintf("instance %d, EC head %v, base %v", k, head, base)
	if chain.IsZero() {
		s.fail("proposal_empty", "proposal", "%s: empty proposal", ctx)
		return
	}
	if err := chain.Validate(); err != nil {
		s.fail("proposal_malformed", "proposal", "%s: proposal is not well-formed: %v", ctx, err)
		return
	}
	if chain.Len() > gpbft.ChainMaxLen || chain.Len() > max(1, s.m.Gpbft.ChainProposedLength) {
		s.fail("proposal_too_long", "proposal", "%s: proposal has %d tipsets (configured %d, protocol maximum %d)", ctx, chain.Len(), s.m.Gpbft.ChainProposedLength, gpbft.ChainMaxLen)
		return
	}
	b := chain.Base()
	if !bytes.Equal(b.Key, base.K) || b.Epoch != base.Ep {
		s.fail("proposal_wrong_base", "proposal", "%s: proposal starts at %s@%d", ctx, b.Key, b.Epoch)
		return
	}
	if got := chain.Len() - 1; got != len(want) {
		what := "proposal_wrong_length"
		if failAt >= 0 {
			what = "ec_error_shortened_proposal"
		}
		s.fail(what, "proposal", "%s: proposal has %d tipsets above the base, expected %d (head look-back %d, proposed length %d)", ctx, got, len(want), s.m.EC.HeadLookback, s.m.Gpbft.ChainProposedLength)
		return
	}
	all := append([]*ecworld.Block{base}, want...)
	for i, ts := range chain.TipSets {
		w := all[i]
		if !bytes.Equal(ts.Key, w.K) || ts.Epoch != w.Ep {
			s.fail("proposal_off_chain", "proposal", "%s: tipset %d of the proposal is %s@%d, the parent chain of the head has %s@%d there", ctx, i, ts.Key, ts.Epoch, w.K, w.Ep)
			return
		}
		if ts.PowerTable.String() != tableCid(w.Table) {
			s.fail("proposal_wrong_power_cid", "proposal", "%s: tipset %d carries a power-table CID that is not EC's table at that tipset", ctx, i)
			return
		}
	}
	if supp.PowerTable.String() != tableCid(nextTable) {
		s.fail("supplemental_wrong_committee", "proposal", "%s: supplemental data does not commit to the committee of instance %d", ctx, k+1)
	}
	if len(want) == 0 {
		s.r.Probe("proposal_base_only")
	}
}
