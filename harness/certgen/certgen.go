// Package certgen generates evolving power tables, canonical power-table deltas (with the
// harness's own diff/apply, independent of certs.MakePowerTableDiff/ApplyPowerTableDiffs) and
// finality certificate chains, optionally signed with the deterministic FakeBackend.
package certgen

import (
	"bytes"
	"context"
	"fmt"
	"math/big"
	"sort"

	"github.com/filecoin-project/go-bitfield"
	rlepluslazy "github.com/filecoin-project/go-bitfield/rle"
	"github.com/filecoin-project/go-f3/certs"
	"github.com/filecoin-project/go-f3/gpbft"
	"github.com/filecoin-project/go-f3/sim/signing"
	gbig "github.com/filecoin-project/go-state-types/big"
	"github.com/filecoin-project/go-f3/zz_verif/kernel"
)

// Canon sorts entries into canonical order (power descending, id ascending).
func Canon(t gpbft.PowerEntries) gpbft.PowerEntries {
	out := append(gpbft.PowerEntries(nil), t...)
	sort.SliceStable(out, func(i, j int) bool {
		c := out[i].Power.Int.Cmp(out[j].Power.Int)
		if c != 0 {
			return c > 0
		}
		return out[i].ID < out[j].ID
	})
	return out
}

// Diff is the harness's own canonical delta between two tables (sorted by participant id).
func Diff(old, nw gpbft.PowerEntries) certs.PowerTableDiff {
	om := map[gpbft.ActorID]gpbft.PowerEntry{}
	for _, e := range old {
		om[e.ID] = e
	}
	nm := map[gpbft.ActorID]gpbft.PowerEntry{}
	ids := map[gpbft.ActorID]bool{}
	for _, e := range nw {
		nm[e.ID] = e
		ids[e.ID] = true
	}
	for id := range om {
		ids[id] = true
	}
	var sorted []gpbft.ActorID
	for id := range ids {
		sorted = append(sorted, id)
	}
	sort.Slice(sorted, func(i, j int) bool { return sorted[i] < sorted[j] })
	var d certs.PowerTableDiff
	for _, id := range sorted {
		o, inOld := om[id]
		n, inNew := nm[id]
		switch {
		case inOld && !inNew:
			d = append(d, certs.PowerTableDelta{ParticipantID: id, PowerDelta: gbig.NewFromGo(new(big.Int).Neg(o.Power.Int))})
		case !inOld && inNew:
			d = append(d, certs.PowerTableDelta{ParticipantID: id, PowerDelta: gbig.NewFromGo(new(big.Int).Set(n.Power.Int)), SigningKey: n.PubKey})
		default:
			delta := new(big.Int).Sub(n.Power.Int, o.Power.Int)
			var key gpbft.PubKey
			if !bytes.Equal(o.PubKey, n.PubKey) {
				key = n.PubKey
			}
			if delta.Sign() == 0 && key == nil {
				continue
			}
			d = append(d, certs.PowerTableDelta{ParticipantID: id, PowerDelta: gbig.NewFromGo(delta), SigningKey: key})
		}
	}
	return d
}

// Apply is the harness's own delta application (model side).
func Apply(t gpbft.PowerEntries, d certs.PowerTableDiff) gpbft.PowerEntries {
	m := map[gpbft.ActorID]gpbft.PowerEntry{}
	for _, e := range t {
		m[e.ID] = e
	}
	for _, x := range d {
		e, ok := m[x.ParticipantID]
		if !ok {
			e = gpbft.PowerEntry{ID: x.ParticipantID, Power: gbig.Zero()}
		}
		e.Power = gbig.NewFromGo(new(big.Int).Add(e.Power.Int, x.PowerDelta.Int))
		if len(x.SigningKey) > 0 {
			e.PubKey = x.SigningKey
		}
		if e.Power.Sign() <= 0 {
			delete(m, x.ParticipantID)
		} else {
			m[x.ParticipantID] = e
		}
	}
	var out gpbft.PowerEntries
	for _, e := range m {
		out = append(out, e)
	}
	return Canon(out)
}

// Gen produces tables and certificates.
type Gen struct {
	C       *kernel.Chooser
	Sig     *signing.FakeBackend
	NN      gpbft.NetworkName
	Sign    bool
	// Weak makes the next signed certificate carry a signer set just below a strong quorum.
	Weak    bool
	nextKey int
	nextID  gpbft.ActorID
}

func New(c *kernel.Chooser, sign bool) *Gen {
	return &Gen{C: c, Sig: signing.NewFakeBackend(), NN: "verif", Sign: sign, nextID: 1}
}

func (g *Gen) newKey() gpbft.PubKey {
	k, _ := g.Sig.GenerateKey()
	return k
}

// InitialTable draws a table with n members.
func (g *Gen) InitialTable(n int) gpbft.PowerEntries {
	var t gpbft.PowerEntries
	for i := 0; i < n; i++ {
		t = append(t, gpbft.PowerEntry{ID: g.nextID, Power: gpbft.NewStoragePower(int64(1 + g.C.Intn(1000))), PubKey: g.newKey()})
		g.nextID++
	}
	return Canon(t)
}

// Evolve draws the next table: unchanged (most often) or with members added, removed, re-keyed
// or re-weighted. The result is never empty.
func (g *Gen) Evolve(t gpbft.PowerEntries) gpbft.PowerEntries {
	c := g.C
	if c.Chance(500) {
		return Canon(t)
	}
	out := append(gpbft.PowerEntries(nil), t...)
	n := 1 + c.Intn(3)
	for i := 0; i < n; i++ {
		switch c.Intn(4) {
		case 0: // add
			out = append(out, gpbft.PowerEntry{ID: g.nextID, Power: gpbft.NewStoragePower(int64(1 + c.Intn(1000))), PubKey: g.newKey()})
			g.nextID++
		case 1: // remove
			if len(out) > 1 {
				j := c.Intn(len(out))
				out = append(out[:j:j], out[j+1:]...)
			}
		case 2: // re-key
			j := c.Intn(len(out))
			out[j].PubKey = g.newKey()
		case 3: // re-weight
			j := c.Intn(len(out))
			out[j].Power = gpbft.NewStoragePower(int64(1 + c.Intn(2000)))
		}
	}
	return Canon(out)
}

func TipSet(epoch int64, key string) *gpbft.TipSet {
	return &gpbft.TipSet{Epoch: epoch, Key: []byte(key), PowerTable: gpbft.MakeCid([]byte("pt@" + key))}
}

// Chain draws a finalised chain starting at base with 0..maxSuffix new tipsets.
func (g *Gen) Chain(base *gpbft.TipSet, instance uint64, maxSuffix int) *gpbft.ECChain {
	ts := []*gpbft.TipSet{base}
	ep := base.Epoch
	n := g.C.Intn(maxSuffix + 1)
	for i := 0; i < n; i++ {
		ep += 1 + int64(g.C.Intn(2))
		ts = append(ts, TipSet(ep, fmt.Sprintf("i%d-e%d", instance, ep)))
	}
	return &gpbft.ECChain{TipSets: ts}
}

func bitfieldOf(idx []int) bitfield.BitField {
	u := make([]uint64, len(idx))
	for i, x := range idx {
		u[i] = uint64(x)
	}
	ri, _ := rlepluslazy.RunsFromSlice(u)
	bf, _ := bitfield.NewFromIter(ri)
	return bf
}

// Cert builds the certificate of `instance` finalising chain, valid against table `cur` and
// committing to `next`.
func (g *Gen) Cert(instance uint64, chain *gpbft.ECChain, cur, next gpbft.PowerEntries) *certs.FinalityCertificate {
	cid, err := certs.MakePowerTableCID(Canon(next))
	if err != nil {
		kernel.Infra("pt cid: %v", err)
	}
	supp := gpbft.SupplementalData{PowerTable: cid}
	supp.Commitments[0] = byte(instance)
	fc := &certs.FinalityCertificate{GPBFTInstance: instance, ECChain: chain, SupplementalData: supp,
		PowerTableDelta: Diff(cur, next), Signers: bitfield.New(), Signature: []byte("unsigned")}
	if !g.Sign {
		fc.Signers = bitfieldOf([]int{0})
		return fc
	}
	// sign with a strong quorum of cur (canonical order), exact arithmetic
	tbl := Canon(cur)
	total := new(big.Int)
	for _, e := range tbl {
		total.Add(total, e.Power.Int)
	}
	scaled := make([]int64, len(tbl))
	var T int64
	for i, e := range tbl {
		x := new(big.Int).Mul(e.Power.Int, big.NewInt(65535))
		scaled[i] = x.Div(x, total).Int64()
		T += scaled[i]
	}
	payload := gpbft.Payload{Instance: instance, Round: 0, Phase: gpbft.DECIDE_PHASE, SupplementalData: supp, Value: chain}
	msg := payload.MarshalForSigning(g.NN)
	// random order of candidate signers, accumulate until strong quorum (skip zero-power)
	perm := g.C.Perm(len(tbl))
	var idx []int
	var p int64
	for _, i := range perm {
		if scaled[i] == 0 {
			continue
		}
		if g.Weak && 3*(p+scaled[i]) >= 2*T {
			continue // stay strictly below two thirds
		}
		idx = append(idx, i)
		p += scaled[i]
		if 3*p >= 2*T {
			break
		}
	}
	g.Weak = false
	sort.Ints(idx)
	sigs := make([][]byte, len(idx))
	for j, i := range idx {
		s, err := g.Sig.Sign(context.Background(), tbl[i].PubKey, msg)
		if err != nil {
			kernel.Infra("sign: %v", err)
		}
		sigs[j] = s
	}
	agg, err := g.Sig.Aggregate(tbl.PublicKeys())
	if err != nil {
		kernel.Infra("aggregate: %v", err)
	}
	as, err := agg.Aggregate(idx, sigs)
	if err != nil {
		kernel.Infra("aggregate: %v", err)
	}
	fc.Signers = bitfieldOf(idx)
	fc.Signature = as
	return fc
}

// History is a generated certificate chain with all its tables.
type History struct {
	First  uint64
	Tables []gpbft.PowerEntries // Tables[i] = table for instance First+i; len = len(Certs)+1
	Certs  []*certs.FinalityCertificate
	Base   *gpbft.TipSet
}

// NewHistory draws n consecutive certificates starting at first.
func (g *Gen) NewHistory(first uint64, n, members, maxSuffix int) *History {
	h := &History{First: first, Base: TipSet(100, "genesis")}
	h.Tables = append(h.Tables, g.InitialTable(members))
	for i := 0; i < n; i++ {
		g.Extend(h, maxSuffix)
	}
	return h
}

// Extend appends one more certificate.
func (g *Gen) Extend(h *History, maxSuffix int) *certs.FinalityCertificate {
	i := len(h.Certs)
	base := h.Base
	if i > 0 {
		base = h.Certs[i-1].ECChain.Head()
	}
	cur := h.Tables[i]
	next := g.Evolve(cur)
	c := g.Cert(h.First+uint64(i), g.Chain(base, h.First+uint64(i), maxSuffix), cur, next)
	h.Certs = append(h.Certs, c)
	h.Tables = append(h.Tables, next)
	return c
}

// CertBytes is the canonical CBOR of a certificate.
func CertBytes(c *certs.FinalityCertificate) []byte {
	var b bytes.Buffer
	if err := c.MarshalCBOR(&b); err != nil {
		kernel.Infra("marshal cert: %v", err)
	}
	return b.Bytes()
}

func TableBytes(t gpbft.PowerEntries) []byte {
	var b bytes.Buffer
	if err := t.MarshalCBOR(&b); err != nil {
		kernel.Infra("marshal table: %v", err)
	}
	return b.Bytes()
}
