// Package simds is a simulated datastore: an in-memory key-value store behind the
// go-datastore interfaces with a write counter, "stop the process after the k-th write",
// error injection, deterministic (chooser-rotated) query order and an optional gate that
// parks the calling goroutine at every operation until a seeded scheduler releases it.
package simds

import (
	"context"
	"errors"
	"sort"
	"strings"
	"sync"

	ds "github.com/ipfs/go-datastore"
	dsq "github.com/ipfs/go-datastore/query"
)

// Crash is the panic value raised when the simulated process stops.
type Crash struct{ Writes int }

var ErrInjected = errors.New("simds: injected datastore error")

type DS struct {
	mu   sync.Mutex
	data map[string][]byte

	// Writes counts Put/Delete operations that reached the store.
	Writes int
	// CrashAfter >= 0: the (CrashAfter+1)-th write panics with Crash *before* taking effect.
	CrashAfter int
	// FailOp, if set, is consulted before every operation; returning true injects ErrInjected.
	FailOp func(op, key string) bool
	// Gate, if set, is called before every operation (outside the internal lock).
	Gate func(op, key string)
	// Rotate is the rotation applied to the (sorted) result list of queries.
	Rotate int
	// Log, if set, receives every write.
	Log func(op, key string, n int)
}

var _ ds.Batching = (*DS)(nil)

func New() *DS { return &DS{data: map[string][]byte{}, CrashAfter: -1} }

// Clone copies the durable content (not the fault settings).
func (d *DS) Clone() *DS {
	d.mu.Lock()
	defer d.mu.Unlock()
	n := New()
	for k, v := range d.data {
		n.data[k] = append([]byte(nil), v...)
	}
	return n
}

// Snapshot returns a sorted dump "key=hex" usable for equality checks.
func (d *DS) Keys() []string {
	d.mu.Lock()
	defer d.mu.Unlock()
	ks := make([]string, 0, len(d.data))
	for k := range d.data {
		ks = append(ks, k)
	}
	sort.Strings(ks)
	return ks
}

func (d *DS) Raw(key string) ([]byte, bool) {
	d.mu.Lock()
	defer d.mu.Unlock()
	v, ok := d.data[key]
	return v, ok
}

func (d *DS) SetRaw(key string, v []byte) {
	d.mu.Lock()
	defer d.mu.Unlock()
	d.data[key] = v
}

func (d *DS) DeleteRaw(key string) {
	d.mu.Lock()
	defer d.mu.Unlock()
	delete(d.data, key)
}

func (d *DS) Len() int {
	d.mu.Lock()
	defer d.mu.Unlock()
	return len(d.data)
}

func (d *DS) pre(op, key string) error {
	if d.Gate != nil {
		d.Gate(op, key)
	}
	if d.FailOp != nil && d.FailOp(op, key) {
		return ErrInjected
	}
	return nil
}

func (d *DS) write(op, key string, f func()) error {
	if err := d.pre(op, key); err != nil {
		return err
	}
	d.mu.Lock()
	if d.CrashAfter >= 0 && d.Writes >= d.CrashAfter {
		w := d.Writes
		d.mu.Unlock()
		panic(Crash{Writes: w})
	}
	d.Writes++
	f()
	n := d.Writes
	d.mu.Unlock()
	if d.Log != nil {
		d.Log(op, key, n)
	}
	return nil
}

func (d *DS) Put(_ context.Context, key ds.Key, value []byte) error {
	return d.write("put", key.String(), func() { d.data[key.String()] = append([]byte(nil), value...) })
}

func (d *DS) Delete(_ context.Context, key ds.Key) error {
	return d.write("delete", key.String(), func() { delete(d.data, key.String()) })
}

func (d *DS) Get(_ context.Context, key ds.Key) ([]byte, error) {
	if err := d.pre("get", key.String()); err != nil {
		return nil, err
	}
	d.mu.Lock()
	defer d.mu.Unlock()
	v, ok := d.data[key.String()]
	if !ok {
		return nil, ds.ErrNotFound
	}
	return append([]byte(nil), v...), nil
}

func (d *DS) Has(_ context.Context, key ds.Key) (bool, error) {
	if err := d.pre("has", key.String()); err != nil {
		return false, err
	}
	d.mu.Lock()
	defer d.mu.Unlock()
	_, ok := d.data[key.String()]
	return ok, nil
}

func (d *DS) GetSize(_ context.Context, key ds.Key) (int, error) {
	if err := d.pre("getsize", key.String()); err != nil {
		return -1, err
	}
	d.mu.Lock()
	defer d.mu.Unlock()
	v, ok := d.data[key.String()]
	if !ok {
		return -1, ds.ErrNotFound
	}
	return len(v), nil
}

func (d *DS) Query(_ context.Context, q dsq.Query) (dsq.Results, error) {
	if err := d.pre("query", q.Prefix); err != nil {
		return nil, err
	}
	d.mu.Lock()
	prefix := q.Prefix
	if prefix != "" {
		prefix = ds.NewKey(prefix).String()
		if prefix != "/" {
			prefix += "/"
		}
	}
	var es []dsq.Entry
	for k, v := range d.data {
		if prefix != "" && !strings.HasPrefix(k, prefix) {
			continue
		}
		e := dsq.Entry{Key: k, Size: len(v)}
		if !q.KeysOnly {
			e.Value = append([]byte(nil), v...)
		}
		es = append(es, e)
	}
	d.mu.Unlock()
	sort.Slice(es, func(i, j int) bool { return es[i].Key < es[j].Key })
	if n := len(es); n > 1 && d.Rotate%n != 0 && len(q.Orders) == 0 {
		r := d.Rotate % n
		es = append(append([]dsq.Entry(nil), es[r:]...), es[:r]...)
	}
	q2 := q
	q2.Prefix = ""
	return dsq.NaiveQueryApply(q2, dsq.ResultsWithEntries(q, es)), nil
}

func (d *DS) Sync(context.Context, ds.Key) error { return nil }
func (d *DS) Close() error                        { return nil }

type batch struct {
	d   *DS
	ops []func(ctx context.Context) error
}

func (d *DS) Batch(context.Context) (ds.Batch, error) { return &batch{d: d}, nil }

func (b *batch) Put(_ context.Context, key ds.Key, value []byte) error {
	v := append([]byte(nil), value...)
	b.ops = append(b.ops, func(ctx context.Context) error { return b.d.Put(ctx, key, v) })
	return nil
}

func (b *batch) Delete(_ context.Context, key ds.Key) error {
	b.ops = append(b.ops, func(ctx context.Context) error { return b.d.Delete(ctx, key) })
	return nil
}

// Commit applies the operations one by one (a batch is not atomic in this model, which is the
// weakest guarantee go-datastore gives).
func (b *batch) Commit(ctx context.Context) error {
	for _, op := range b.ops {
		if err := op(ctx); err != nil {
			return err
		}
	}
	b.ops = nil
	return nil
}
