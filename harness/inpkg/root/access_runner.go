//go:build verif

package f3

import (
	"context"
	"fmt"
	"time"

	"github.com/filecoin-project/go-f3/certstore"
	"github.com/filecoin-project/go-f3/ec"
	"github.com/filecoin-project/go-f3/gpbft"
	"github.com/filecoin-project/go-f3/internal/clock"
	"github.com/filecoin-project/go-f3/internal/writeaheadlog"
	"github.com/filecoin-project/go-f3/manifest"
	pubsub "github.com/libp2p/go-libp2p-pubsub"
	"github.com/libp2p/go-libp2p/core/peer"
)

// VerifRunner exposes the broadcast path of the node's gpbft runner (filter -> WAL -> publish,
// rebroadcast, WAL hydration on construction) without starting its loops.
type VerifRunner struct {
	r   *gpbftRunner
	wal *writeaheadlog.WriteAheadLog[walEntry, *walEntry]
}

// VerifOpenRunner opens the node's WAL in dir, constructs the runner exactly like F3 does
// (newRunner: filter and self-messages re-armed from the WAL) and joins the gpbft topic.
func VerifOpenRunner(ctx context.Context, walDir string, cs *certstore.Store, backend ec.Backend, ps *pubsub.PubSub,
	verifier gpbft.Verifier, m manifest.Manifest, pid peer.ID, tap func(data []byte)) (*VerifRunner, error) {
	wal, err := writeaheadlog.Open[walEntry](walDir)
	if err != nil {
		return nil, err
	}
	out := make(chan *gpbft.MessageBuilder, 16)
	r, err := newRunner(ctx, cs, backend, ps, verifier, out, m, wal, pid)
	if err != nil {
		return nil, err
	}
	// The node's own topic validator is replaced by a tap: pubsub runs topic validators
	// synchronously inside Topic.Publish for locally published messages, so the tap sees every
	// published message before Publish returns.
	if tap != nil {
		err = ps.RegisterTopicValidator(m.PubSubTopic(), func(_ context.Context, _ peer.ID, msg *pubsub.Message) pubsub.ValidationResult {
			tap(msg.Data)
			return pubsub.ValidationAccept
		}, pubsub.WithValidatorInline(true))
		if err != nil {
			return nil, err
		}
	}
	r.topic, err = ps.Join(m.PubSubTopic())
	if err != nil {
		return nil, err
	}
	return &VerifRunner{r: r, wal: wal}, nil
}

func (v *VerifRunner) Broadcast(ctx context.Context, msg *gpbft.GMessage) error {
	return v.r.BroadcastMessage(ctx, msg)
}

func (v *VerifRunner) Rebroadcast(in gpbft.Instant) error {
	return (*gpbftHost)(v.r).RequestRebroadcast(in)
}

// PurgeWAL does what the finalize loop does after a certificate for instance k+5.
func (v *VerifRunner) PurgeWAL(keep uint64) error { return v.wal.Purge(keep) }

// DecodeWire decodes a published gpbft message with the runner's wire encoding.
func (v *VerifRunner) DecodeWire(data []byte) (*gpbft.PartialGMessage, error) {
	var pm gpbft.PartialGMessage
	if err := v.r.msgEncoding.Decode(data, &pm); err != nil {
		return nil, err
	}
	return &pm, nil
}

// VerifLifecycle runs one whole process lifetime of the node's runner on the WAL in dir with the
// real Start and Stop: the runner is constructed like F3 does, started on a mock clock that
// never advances (no alarm fires, so the participant asks for no broadcast), left running until
// the finalize loop has handled the latest certificate (finalize at EC, purge of the WAL with the
// bound host.go computes, pruning of the kept self messages) and stopped. finalized is signalled
// by the EC backend when Finalize is called. The latest certificate must be for instance >= 1.
func VerifLifecycle(ctx context.Context, walDir string, cs *certstore.Store, backend ec.Backend, ps *pubsub.PubSub,
	verifier gpbft.Verifier, m manifest.Manifest, pid peer.ID, finalized <-chan struct{}, timeout time.Duration) error {
	latest := cs.Latest()
	if latest == nil || latest.GPBFTInstance == 0 {
		return fmt.Errorf("lifecycle needs a certificate for an instance >= 1")
	}
	wal, err := writeaheadlog.Open[walEntry](walDir)
	if err != nil {
		return err
	}
	ctx, _ = clock.WithMockClock(ctx)
	out := make(chan *gpbft.MessageBuilder, 16)
	r, err := newRunner(ctx, cs, backend, ps, verifier, out, m, wal, pid)
	if err != nil {
		return err
	}
	// The finalize loop deletes the kept self messages older than the certificate after the
	// purge: an entry for such an instance tells when the loop is through with the certificate.
	sentinel := latest.GPBFTInstance - 1
	r.msgsMutex.Lock()
	if r.selfMessages[sentinel] == nil {
		r.selfMessages[sentinel] = make(map[roundPhase][]*gpbft.GMessage)
	}
	r.msgsMutex.Unlock()
	if err := r.Start(ctx); err != nil {
		return fmt.Errorf("start: %w", err)
	}
	deadline := time.Now().Add(timeout)
	select {
	case <-finalized:
	case <-time.After(timeout):
		_ = r.Stop(ctx)
		return fmt.Errorf("timeout: the finalize loop did not finalize the latest certificate")
	}
	for {
		r.msgsMutex.Lock()
		_, there := r.selfMessages[sentinel]
		r.msgsMutex.Unlock()
		if !there {
			break
		}
		if time.Now().After(deadline) {
			_ = r.Stop(ctx)
			return fmt.Errorf("timeout: the finalize loop did not complete the latest certificate")
		}
		time.Sleep(50 * time.Microsecond)
	}
	return r.Stop(ctx)
}

// VerifWAL is the write-ahead log instantiated with the node's own entry type (walEntry).
type VerifWAL struct {
	w *writeaheadlog.WriteAheadLog[walEntry, *walEntry]
}

func VerifOpenWAL(dir string) (*VerifWAL, error) {
	w, err := writeaheadlog.Open[walEntry](dir)
	if err != nil {
		return nil, err
	}
	return &VerifWAL{w: w}, nil
}

func (v *VerifWAL) Append(m *gpbft.GMessage) error { return v.w.Append(walEntry{m}) }
func (v *VerifWAL) Close() error                    { return v.w.Close() }
func (v *VerifWAL) Purge(keep uint64) error         { return v.w.Purge(keep) }

func (v *VerifWAL) All() ([]*gpbft.GMessage, error) {
	es, err := v.w.All()
	if err != nil {
		return nil, err
	}
	out := make([]*gpbft.GMessage, len(es))
	for i := range es {
		out[i] = es[i].Message
	}
	return out, nil
}
