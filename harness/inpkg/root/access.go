//go:build verif

package f3

import (
	"context"

	"github.com/filecoin-project/go-f3/certs"
	"github.com/filecoin-project/go-f3/certstore"
	"github.com/filecoin-project/go-f3/ec"
	"github.com/filecoin-project/go-f3/gpbft"
	"github.com/filecoin-project/go-f3/internal/clock"
	"github.com/filecoin-project/go-f3/manifest"
)

// Accessors injected by the verification harness (overlay, tag verif): they only expose
// unexported constructors of package f3.

// VerifInputs wraps the node's consensus-inputs component.
type VerifInputs struct{ in gpbftInputs }

func VerifNewInputs(m manifest.Manifest, cs *certstore.Store, backend ec.Backend, v gpbft.Verifier, clk clock.Clock) *VerifInputs {
	return &VerifInputs{in: newInputs(m, cs, backend, v, clk)}
}

func (v *VerifInputs) GetProposal(ctx context.Context, instance uint64) (*gpbft.SupplementalData, *gpbft.ECChain, error) {
	return v.in.GetProposal(ctx, instance)
}

func (v *VerifInputs) GetCommittee(ctx context.Context, instance uint64) (*gpbft.Committee, error) {
	return v.in.GetCommittee(ctx, instance)
}

// VerifHost is the node's gpbft host reduced to what saving a decision needs (consensus inputs,
// certificate store, verifier, manifest): no network, no participant.
type VerifHost struct{ h *gpbftHost }

func VerifNewHost(ctx context.Context, m manifest.Manifest, cs *certstore.Store, backend ec.Backend, v gpbft.Verifier, clk clock.Clock) *VerifHost {
	r := &gpbftRunner{certStore: cs, manifest: m, ec: backend, verifier: v, clock: clk, runningCtx: ctx,
		inputs: newInputs(m, cs, backend, v, clk)}
	return &VerifHost{h: (*gpbftHost)(r)}
}

// SaveDecision is what ReceiveDecision does with a reported decision: build the certificate with
// the power-table delta towards the next committee, validate it, store it.
func (v *VerifHost) SaveDecision(ctx context.Context, d *gpbft.Justification) (*certs.FinalityCertificate, error) {
	return v.h.saveDecision(ctx, d)
}

func (v *VerifHost) GetProposal(ctx context.Context, instance uint64) (*gpbft.SupplementalData, *gpbft.ECChain, error) {
	return v.h.GetProposal(ctx, instance)
}
