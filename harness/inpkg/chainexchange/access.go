//go:build verif

package chainexchange

import (
	"context"

	pubsub "github.com/libp2p/go-libp2p-pubsub"
	pubsub_pb "github.com/libp2p/go-libp2p-pubsub/pb"
)

// Accessors injected by the verification harness (overlay, tag verif).

// VerifValidate runs the pubsub validator on raw bytes; on acceptance the decoded message is returned.
func VerifValidate(p *PubSubChainExchange, ctx context.Context, data []byte) (pubsub.ValidationResult, *Message) {
	m := &pubsub.Message{Message: &pubsub_pb.Message{Data: data}}
	res := p.validatePubSubMessage(ctx, "", m)
	if res == pubsub.ValidationAccept {
		if cm, ok := m.ValidatorData.(Message); ok {
			return res, &cm
		}
	}
	return res, nil
}

func VerifEncode(p *PubSubChainExchange, m *Message) ([]byte, error) { return p.encoding.Encode(m) }

// VerifCacheDiscovered does what the subscription goroutine does with a validated message.
func VerifCacheDiscovered(p *PubSubChainExchange, ctx context.Context, m Message) {
	p.cacheAsDiscoveredChain(ctx, m)
}

// VerifCacheWanted does what the broadcast goroutine does with an own broadcast.
func VerifCacheWanted(p *PubSubChainExchange, ctx context.Context, m Message) {
	p.cacheAsWantedChain(ctx, m)
}
