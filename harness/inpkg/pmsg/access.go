//go:build verif

package pmsg

import "github.com/filecoin-project/go-f3/gpbft"

// VerifInferJustificationVoteValue exposes the production completion helper to the harness.
func VerifInferJustificationVoteValue(p *gpbft.PartialGMessage) { inferJustificationVoteValue(p) }
