//go:build verif

package sim

import "github.com/filecoin-project/go-f3/gpbft"

// VerifHonestHosts exposes the host handles of the honest participants (verification harness only).
func VerifHonestHosts(s *Simulation) []gpbft.Host {
	var hs []gpbft.Host
	for i := range s.participants {
		hs = append(hs, s.hosts[i])
	}
	return hs
}
