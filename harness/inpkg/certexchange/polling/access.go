//go:build verif

package polling

import (
	"context"
	"time"

	"github.com/filecoin-project/go-f3/internal/clock"
	"github.com/libp2p/go-libp2p/core/peer"
)

// Accessors injected by the verification harness (overlay, tag verif).

// VerifPrepare initialises a Subscriber like Start does, without launching its loop.
func VerifPrepare(ctx context.Context, s *Subscriber) error {
	s.clock = clock.GetClock(ctx)
	s.peerTracker = newPeerTracker(s.clock)
	var err error
	s.poller, err = NewPoller(ctx, &s.Client, s.Store, s.SignatureVerifier)
	return err
}

func VerifPeerSeen(s *Subscriber, p peer.ID) { s.peerTracker.peerSeen(p) }

// VerifPoll runs one polling round and returns the progress it reports.
func VerifPoll(ctx context.Context, s *Subscriber) (uint64, bool, error) { return s.poll(ctx) }

func VerifNextInstance(s *Subscriber) uint64 { return s.poller.NextInstance }

// VerifRound does what one timer tick of Subscriber.run does before it consults the predictor:
// catch up with the local store, and poll only if that made no progress.
func VerifRound(ctx context.Context, s *Subscriber) (uint64, bool, error) {
	progress, err := s.poller.CatchUp(ctx)
	if err != nil || progress > 0 {
		return progress, false, err
	}
	return s.poll(ctx)
}

// VerifPredictor wraps the unexported interval predictor.
type VerifPredictor struct{ p *predictor }

func VerifNewPredictor(minInterval, defaultInterval, maxInterval time.Duration) *VerifPredictor {
	return &VerifPredictor{p: newPredictor(minInterval, defaultInterval, maxInterval)}
}

func (v *VerifPredictor) Update(progress uint64) time.Duration { return v.p.update(progress) }
