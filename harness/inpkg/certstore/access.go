//go:build verif

package certstore

import (
	"context"

	"github.com/filecoin-project/go-f3/manifest"
	"github.com/ipfs/go-datastore"
)

// Accessors injected by the verification harness (overlay, tag verif). They only expose
// unexported knobs; nothing here changes behaviour.

func VerifSetPowerTableFrequency(cs *Store, f uint64) { cs.powerTableFrequency = f }

func VerifFirstInstance(cs *Store) uint64 { return cs.firstInstance }

func VerifImportSnapshot(ctx context.Context, snapshot SnapshotReader, ds datastore.Batching, m *manifest.Manifest, freq uint64) error {
	return importSnapshotToDatastoreWithTestingPowerTableFrequency(ctx, snapshot, ds, m, freq)
}
