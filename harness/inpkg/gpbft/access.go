//go:build verif

package gpbft

import (
	"context"

	"github.com/filecoin-project/go-f3/internal/caching"
)

// Accessors injected by the verification harness (overlay, tag verif).

// VerifValidator is a validator with its own, empty cache.
type VerifValidator struct{ v *cachingValidator }

// VerifNewValidator builds a fresh validator (empty cache) over the given committee provider and
// progress function, exactly like NewParticipant does for its own.
func VerifNewValidator(nn NetworkName, verifier Verifier, cp CommitteeProvider, progress Progress, committeeLookback uint64) *VerifValidator {
	cache := caching.NewGroupedSet(defaultMaxCachedInstances, 64)
	return &VerifValidator{v: newValidator(nn, verifier, cp, progress, cache, committeeLookback)}
}

func (v *VerifValidator) ValidateMessage(ctx context.Context, m *GMessage) (ValidatedMessage, error) {
	return v.v.ValidateMessage(ctx, m)
}

func (v *VerifValidator) PartiallyValidateMessage(ctx context.Context, m *PartialGMessage) (PartiallyValidatedMessage, error) {
	return v.v.PartiallyValidateMessage(ctx, m)
}

func (v *VerifValidator) FullyValidateMessage(ctx context.Context, m PartiallyValidatedMessage) (ValidatedMessage, error) {
	return v.v.FullyValidateMessage(ctx, m)
}
