// Package simsync stands in for "sync" in repository files compiled for cooperative scheduling
// (see tools/instr and package coop). Inside a cooperative phase Mutex and RWMutex are simulated:
// a task that cannot take the lock is parked and the seeded scheduler runs another one, so lock
// hand-over order is a scheduler decision like every other. Outside such a phase (every other
// check, and goroutines the scheduler does not own) they are the real sync primitives.
package simsync

import (
	"sync"

	"github.com/filecoin-project/go-f3/zz_verif/coop"
)

type (
	WaitGroup = sync.WaitGroup
	Once      = sync.Once
	Map       = sync.Map
	Cond      = sync.Cond
	Locker    = sync.Locker
)

// Pool is a deterministic stand-in for sync.Pool: a plain stack that is never cleared by the
// garbage collector and does not depend on which P the caller runs on (sync.Pool's reuse pattern
// varies with GOMAXPROCS and GC timing, which would make the number of executed statements, and
// with it the schedule, differ between two runs of one seed).
type Pool struct {
	New   func() any
	mu    sync.Mutex
	items []any
}

func (p *Pool) Get() any {
	p.mu.Lock()
	if n := len(p.items); n > 0 {
		x := p.items[n-1]
		p.items = p.items[:n-1]
		p.mu.Unlock()
		return x
	}
	p.mu.Unlock()
	if p.New != nil {
		return p.New()
	}
	return nil
}

func (p *Pool) Put(x any) {
	p.mu.Lock()
	if len(p.items) < 64 {
		p.items = append(p.items, x)
	}
	p.mu.Unlock()
}

func NewCond(l Locker) *Cond { return sync.NewCond(l) }

type Mutex struct {
	real sync.Mutex
	held bool
}

func (m *Mutex) Lock() {
	if coop.Current() == nil {
		m.real.Lock()
		return
	}
	coop.BlockUntil(func() bool { return !m.held })
	m.held = true
}

func (m *Mutex) Unlock() {
	if coop.Current() == nil {
		m.real.Unlock()
		return
	}
	if !m.held {
		panic("simsync: unlock of unlocked mutex")
	}
	m.held = false
	coop.Yield()
}

func (m *Mutex) TryLock() bool {
	if coop.Current() == nil {
		return m.real.TryLock()
	}
	if m.held {
		return false
	}
	m.held = true
	return true
}

type RWMutex struct {
	real    sync.RWMutex
	writer  bool
	readers int
}

func (m *RWMutex) Lock() {
	if coop.Current() == nil {
		m.real.Lock()
		return
	}
	coop.BlockUntil(func() bool { return !m.writer && m.readers == 0 })
	m.writer = true
}

func (m *RWMutex) Unlock() {
	if coop.Current() == nil {
		m.real.Unlock()
		return
	}
	if !m.writer {
		panic("simsync: unlock of unlocked RWMutex")
	}
	m.writer = false
	coop.Yield()
}

func (m *RWMutex) RLock() {
	if coop.Current() == nil {
		m.real.RLock()
		return
	}
	coop.BlockUntil(func() bool { return !m.writer })
	m.readers++
}

func (m *RWMutex) RUnlock() {
	if coop.Current() == nil {
		m.real.RUnlock()
		return
	}
	if m.readers <= 0 {
		panic("simsync: RUnlock of unlocked RWMutex")
	}
	m.readers--
	coop.Yield()
}

func (m *RWMutex) TryLock() bool {
	if coop.Current() == nil {
		return m.real.TryLock()
	}
	if m.writer || m.readers > 0 {
		return false
	}
	m.writer = true
	return true
}

func (m *RWMutex) TryRLock() bool {
	if coop.Current() == nil {
		return m.real.TryRLock()
	}
	if m.writer {
		return false
	}
	m.readers++
	return true
}

func (m *RWMutex) RLocker() Locker { return (*rlocker)(m) }

type rlocker RWMutex

func (r *rlocker) Lock()   { (*RWMutex)(r).RLock() }
func (r *rlocker) Unlock() { (*RWMutex)(r).RUnlock() }

// The remaining exported functions of package sync, forwarded unchanged.

func OnceFunc(f func()) func()                                 { return sync.OnceFunc(f) }
func OnceValue[T any](f func() T) func() T                     { return sync.OnceValue(f) }
func OnceValues[T1, T2 any](f func() (T1, T2)) func() (T1, T2) { return sync.OnceValues(f) }
