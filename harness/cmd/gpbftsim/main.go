package main

import (
	"github.com/filecoin-project/go-f3/zz_verif/gpbftsim"
	"github.com/filecoin-project/go-f3/zz_verif/kernel"
)

func main() { kernel.Main("gpbftsim", gpbftsim.Run) }
