package main

import (
	"github.com/filecoin-project/go-f3/zz_verif/compsim"
	"github.com/filecoin-project/go-f3/zz_verif/kernel"
)

func main() { kernel.Main("compsim", compsim.Run) }
