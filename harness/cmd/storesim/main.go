package main

import (
	"github.com/filecoin-project/go-f3/zz_verif/kernel"
	"github.com/filecoin-project/go-f3/zz_verif/storesim"
)

func main() { kernel.Main("storesim", storesim.Run) }
