// Package ecworld is an explicit model of an EC block tree (parents, null rounds, forks,
// per-tipset power table and beacon, timestamps, movable head) implementing ec.Backend.
package ecworld

import (
	"context"
	"errors"
	"fmt"
	"time"

	"github.com/filecoin-project/go-f3/ec"
	"github.com/filecoin-project/go-f3/gpbft"
)

type Block struct {
	ID     int
	Ep     int64
	Parent *Block
	K      []byte
	B      []byte
	TS     time.Time
	Table  gpbft.PowerEntries
}

func (b *Block) Key() gpbft.TipSetKey { return b.K }
func (b *Block) Beacon() []byte       { return b.B }
func (b *Block) Epoch() int64         { return b.Ep }
func (b *Block) Timestamp() time.Time { return b.TS }
func (b *Block) String() string       { return fmt.Sprintf("blk%d@%d", b.ID, b.Ep) }

var _ ec.TipSet = (*Block)(nil)

type World struct {
	Blocks  []*Block
	byKey   map[string]*Block
	Head    *Block
	Start   time.Time
	Period  time.Duration
	// Fail, if set, is consulted by every Backend method; a non-nil result is returned as error.
	Fail func(method string) error
	// Calls counts backend calls per method.
	Calls     map[string]int
	Finalized [][]byte
}

var _ ec.Backend = (*World)(nil)

var ErrInjected = errors.New("ecworld: injected EC error")

func New(start time.Time, period time.Duration, genesisTable gpbft.PowerEntries) *World {
	w := &World{byKey: map[string]*Block{}, Start: start, Period: period, Calls: map[string]int{}}
	g := w.add(nil, 0, genesisTable)
	w.Head = g
	return w
}

func (w *World) add(parent *Block, epoch int64, table gpbft.PowerEntries) *Block {
	id := len(w.Blocks)
	b := &Block{ID: id, Ep: epoch, Parent: parent, K: []byte(fmt.Sprintf("tsk-%04d-e%d", id, epoch)),
		B: []byte(fmt.Sprintf("beacon-%d-%d", id, epoch)), TS: w.Start.Add(time.Duration(epoch) * w.Period), Table: table}
	w.Blocks = append(w.Blocks, b)
	w.byKey[string(b.K)] = b
	return b
}

// Extend adds a child of parent at the given epoch (epoch > parent epoch; gaps are null rounds).
func (w *World) Extend(parent *Block, epoch int64, table gpbft.PowerEntries) *Block {
	if epoch <= parent.Ep {
		panic("ecworld: non-increasing epoch")
	}
	if table == nil {
		table = parent.Table
	}
	return w.add(parent, epoch, table)
}

func (w *World) ByKey(k []byte) *Block { return w.byKey[string(k)] }

// AtOrBefore returns the block of the chain ending in tip with the highest epoch <= e.
func AtOrBefore(tip *Block, e int64) *Block {
	b := tip
	for b != nil && b.Ep > e {
		b = b.Parent
	}
	return b
}

// IsAncestor reports whether a is on the parent chain of b (or equal).
func IsAncestor(a, b *Block) bool {
	for x := b; x != nil; x = x.Parent {
		if x == a {
			return true
		}
	}
	return false
}

func (w *World) fail(m string) error {
	w.Calls[m]++
	if w.Fail != nil {
		return w.Fail(m)
	}
	return nil
}

func (w *World) GetTipsetByEpoch(_ context.Context, epoch int64) (ec.TipSet, error) {
	if err := w.fail("GetTipsetByEpoch"); err != nil {
		return nil, err
	}
	if w.Head.Ep < epoch {
		return nil, fmt.Errorf("epoch %d does not yet exist (head %d)", epoch, w.Head.Ep)
	}
	b := AtOrBefore(w.Head, epoch)
	if b == nil {
		return nil, fmt.Errorf("no tipset at or before epoch %d", epoch)
	}
	return b, nil
}

func (w *World) GetTipset(_ context.Context, k gpbft.TipSetKey) (ec.TipSet, error) {
	if err := w.fail("GetTipset"); err != nil {
		return nil, err
	}
	b := w.byKey[string(k)]
	if b == nil {
		return nil, fmt.Errorf("unknown tipset %q", string(k))
	}
	return b, nil
}

func (w *World) GetHead(context.Context) (ec.TipSet, error) {
	if err := w.fail("GetHead"); err != nil {
		return nil, err
	}
	return w.Head, nil
}

func (w *World) GetParent(_ context.Context, ts ec.TipSet) (ec.TipSet, error) {
	if err := w.fail("GetParent"); err != nil {
		return nil, err
	}
	b := w.byKey[string(ts.Key())]
	if b == nil || b.Parent == nil {
		return nil, fmt.Errorf("no parent of %v", ts)
	}
	return b.Parent, nil
}

func (w *World) GetPowerTable(_ context.Context, k gpbft.TipSetKey) (gpbft.PowerEntries, error) {
	if err := w.fail("GetPowerTable"); err != nil {
		return nil, err
	}
	b := w.byKey[string(k)]
	if b == nil {
		return nil, fmt.Errorf("unknown tipset %q", string(k))
	}
	return append(gpbft.PowerEntries(nil), b.Table...), nil
}

func (w *World) Finalize(_ context.Context, k gpbft.TipSetKey) error {
	if err := w.fail("Finalize"); err != nil {
		return err
	}
	w.Finalized = append(w.Finalized, k)
	return nil
}
