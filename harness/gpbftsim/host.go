package gpbftsim

import (
	"bytes"
	"context"
	"errors"
	"fmt"
	"time"

	"github.com/filecoin-project/go-f3/gpbft"
	"github.com/filecoin-project/go-f3/zz_verif/kernel"
)

// Host implements gpbft.Host for one honest member on top of the simulated world.
type Host struct {
	m *Member
	w *World
}

var _ gpbft.Host = (*Host)(nil)

func (h *Host) NetworkName() gpbft.NetworkName { return h.w.nn }

func (h *Host) GetProposal(_ context.Context, k uint64) (*gpbft.SupplementalData, *gpbft.ECChain, error) {
	w := h.w
	info := w.instance(k)
	if info == nil {
		return nil, nil, fmt.Errorf("no instance %d configured", k)
	}
	ch, ok := h.m.inputs[k]
	if !ok {
		var base *gpbft.TipSet
		if k == 0 {
			base = mkTipset(10, "genesis")
		} else if d, ok := h.m.decisions[k-1]; ok {
			base = d.Vote.Value.Head()
		} else {
			return nil, nil, fmt.Errorf("member %d does not know the base of instance %d", h.m.ID, k)
		}
		w.buildTree(info, base)
		if !info.Base.Equal(base) {
			// Only possible after an agreement violation (already reported) or harness error.
			return nil, nil, fmt.Errorf("diverging base for instance %d", k)
		}
		ch = w.inputFor(h.m, info)
		if k == 0 && h.m.Idx == w.cfg.Deviant {
			// this member's view of the base differs from everybody else's
			tb := *info.Base
			switch w.cfg.DeviantKind {
			case 0:
				tb.Commitments[0] ^= 0x5a
			case 1:
				tb.PowerTable = gpbft.MakeCid([]byte("deviating-power-table"))
			default:
				tb.Key = append(append([]byte(nil), tb.Key...), '\'')
			}
			ch = &gpbft.ECChain{TipSets: append([]*gpbft.TipSet{&tb}, ch.TipSets[1:]...)}
			h.m.deviant = true
			w.r.Fault("member_with_deviating_base")
		}
		h.m.inputs[k] = ch
	}
	handed := ch
	if eff := h.m.effectiveInput[k]; eff != nil {
		// the EC chain handed over is over-long; what the participant can propose is its first
		// 128 tipsets, and that is its input as far as the oracles are concerned
		if len(ch.TipSets) > len(eff.TipSets) {
			handed = ch
		} else if full := w.instance(k).Inputs[h.m.Idx]; full != nil {
			handed = full
		}
		ch = eff
		h.m.inputs[k] = eff
	}
	supp := info.Supp
	w.r.Tracef("t=%d input p=%d k=%d chain=%s (handed over: %d tipsets)", w.now(), h.m.ID, k, chainStr(ch), len(handed.TipSets))
	if w.byz != nil {
		w.byz.learnChain(k, ch)
	}
	h.m.disc.onStart(k, ch, info)
	// hand out a private copy
	cp := &gpbft.ECChain{TipSets: append([]*gpbft.TipSet(nil), handed.TipSets...)}
	return &supp, cp, nil
}

func (h *Host) GetCommittee(_ context.Context, k uint64) (*gpbft.Committee, error) {
	info := h.w.instance(k)
	if info == nil {
		return nil, fmt.Errorf("no committee for instance %d", k)
	}
	return &gpbft.Committee{PowerTable: info.Table.Copy(), Beacon: info.Beacon, AggregateVerifier: info.Agg}, nil
}

func (h *Host) Time() time.Time { return h.m.localTime(h.w.now()) }

func (m *Member) localTime(g time.Duration) time.Time {
	return m.w.t0.Add(m.anchorL + time.Duration(int64(g-m.anchorG)*m.rateNum/1000))
}

// setRate changes the clock rate from global instant g on (piecewise linear, continuous).
func (m *Member) setRate(g time.Duration, rate int64) {
	m.anchorL = m.localTime(g).Sub(m.w.t0)
	m.anchorG = g
	m.rateNum = rate
}

// globalFor returns the earliest global instant at which the member's local clock shows >= at.
func (m *Member) globalFor(at time.Time) time.Duration {
	local := at.Sub(m.w.t0) - m.anchorL
	if local <= 0 {
		return m.anchorG
	}
	g := (int64(local)*1000 + m.rateNum - 1) / m.rateNum
	return m.anchorG + time.Duration(g)
}

func (h *Host) SetAlarm(at time.Time) {
	m, w := h.m, h.w
	if m.alarm != nil {
		m.alarm.Dead = true
		m.alarm = nil
	}
	m.alarmAt = at
	if at.IsZero() {
		return
	}
	m.disc.onSetAlarm(at)
	w.armAlarm(m)
}

// armAlarm schedules the pending alarm of m: never before the requested local time, possibly late.
func (w *World) armAlarm(m *Member) {
	if m.alarm != nil {
		m.alarm.Dead = true
		m.alarm = nil
	}
	if m.alarmAt.IsZero() {
		return
	}
	g := m.globalFor(m.alarmAt)
	if g < w.now() {
		g = w.now()
	}
	if w.gstReached || w.cfg.Mode == ModeGoodCase {
		if w.gstReached {
			g += w.c.Dur(0, w.cfg.Delta/10)
		}
	} else if w.cfg.AlarmLatePm > 0 && w.c.Chance(w.cfg.AlarmLatePm) {
		g += w.c.Dur(0, w.cfg.AlarmLateMax)
		w.r.Fault("alarm_late")
	}
	inc := m.incarnation
	m.alarm = w.s.At(g, func() { w.fireAlarm(m, inc) })
	m.alarm.Actor = m.Idx
	m.alarm.Tag = tagAlarm
}

const (
	tagDeliver = 1
	tagAlarm   = 2
	tagOther   = 3
)

func (h *Host) Verify(pubKey gpbft.PubKey, msg, sig []byte) error {
	if f := h.w.verifyHook; f != nil {
		h.w.verifyHook = nil
		f()
	}
	return h.w.sig.Verify(pubKey, msg, sig)
}

func (h *Host) Aggregate(pubKeys []gpbft.PubKey) (gpbft.Aggregate, error) {
	return h.w.sig.Aggregate(pubKeys)
}

func (h *Host) RequestBroadcast(mb *gpbft.MessageBuilder) error {
	m, w := h.m, h.w
	msg, err := mb.Build(w.ctx, w.sig, m.ID)
	if err != nil {
		if errors.Is(err, gpbft.ErrNoPower) {
			w.r.Probe("honest_no_power_no_broadcast")
			m.disc.onBroadcastAttempt(mb, nil)
			return nil
		}
		kernel.Infra("building message for %d: %v", m.ID, err)
	}
	m.disc.onBroadcastAttempt(mb, msg)
	k := msg.Vote.Instance
	sl := slot{msg.Vote.Round, msg.Vote.Phase}
	// Equivocation filter + WAL emulation (restarts): a slot already on record with a different
	// signature is not published again.
	if prev, ok := m.sent[k][sl]; ok {
		if !bytes.Equal(prev.Signature, msg.Signature) {
			w.r.Probe("filter_suppressed_conflicting_rebroadcast")
			return nil
		}
	} else {
		if m.sent[k] == nil {
			m.sent[k] = map[slot]*gpbft.GMessage{}
		}
		m.sent[k][sl] = msg
	}
	w.publish(m, msg, false)
	return nil
}

func (h *Host) RequestRebroadcast(in gpbft.Instant) error {
	m, w := h.m, h.w
	if msg, ok := m.sent[in.ID][slot{in.Round, in.Phase}]; ok {
		w.r.Probe("rebroadcast")
		w.publish(m, msg, true)
	}
	return nil
}

func (h *Host) ReceiveDecision(_ context.Context, d *gpbft.Justification) (time.Time, error) {
	m, w := h.m, h.w
	w.onDecision(m, d)
	k := d.Vote.Instance
	if _, ok := m.decisions[k]; !ok {
		m.decisions[k] = d
	}
	if int(k)+1 >= w.cfg.K {
		m.done = true
		return h.Time().Add(1000 * time.Hour), nil
	}
	gap := w.c.Dur(0, 2*w.cfg.Delta)
	return h.Time().Add(gap), nil
}
