package gpbftsim

import (
	"strings"

	"github.com/filecoin-project/go-f3/gpbft"
)

// liveBound is the number of further rounds the property grants after stabilisation.
func (w *World) liveBound() uint64 {
	if w.byzEverSent {
		return 40
	}
	return 6
}

// checkLiveness is evaluated after every event once the network is timely (C06).
func (w *World) checkLiveness() {
	for _, m := range w.honest() {
		if m.done || !m.started || m.part == nil {
			continue
		}
		p := m.part.Progress()
		if p.Phase == gpbft.INITIAL_PHASE {
			continue
		}
		if p.Round > w.roundAtGST[p.ID]+w.liveBound() {
			key := "bound"
			if w.lotteryExplains(p.ID, p.Round) {
				// every recent round was lost because the best-ticket value was not on some
				// member's own EC chain: termination then hinges on the ticket lottery
				key = "incompatible-inputs-lottery"
			}
			w.fail("C06", "round_bound_exceeded", key,
				"member %d is in round %d of instance %d without a decision; round at stabilisation was %d, bound +%d (byzantine messages sent: %v)",
				m.ID, p.Round, p.ID, w.roundAtGST[p.ID], w.liveBound(), w.byzEverSent)
			return
		}
	}
}

// finalLiveness is evaluated when the run ends.
func (w *World) finalLiveness() {
	if !w.gstReached {
		return
	}
	if w.allDone() {
		w.r.Probe("all_decided_after_gst")
		return
	}
	if w.s.Pending() == 0 {
		for _, m := range w.honest() {
			if !m.done && m.started {
				p := m.part.Progress()
				w.fail("C06", "stalled", "no-events", "member %d stalled at %d/%d/%s: no timer or message pending anywhere", m.ID, p.ID, p.Round, p.Phase)
				return
			}
		}
	}
	w.r.Probe("liveness_inconclusive_step_cap")
}

// noteIncompatibleBest records that in (instance k, round r) some honest member's best-ticket
// CONVERGE value was not a prefix of that member's own input.
func (w *World) noteIncompatibleBest(k, r uint64) {
	if w.incompat == nil {
		w.incompat = map[[2]uint64]int{}
	}
	w.incompat[[2]uint64{k, r}]++
}

// lotteryExplains: in each of the last 8 completed rounds some honest member could not adopt the
// best-ticket value because it is not on its own EC chain.
func (w *World) lotteryExplains(k, round uint64) bool {
	if round < 9 {
		return false
	}
	// The lottery explains a lost round only between participants that follow the protocol: if the
	// discipline reference model (C07) saw an honest member deviate in this run - anything but the
	// recorded internal error of finding W1 - the missing decision is not put down to the lottery.
	for key := range w.otherViol {
		if strings.HasPrefix(key, "C07:") && key != "C07:internal_error" {
			w.r.Probe("lottery_explanation_refused_after_discipline_violation")
			return false
		}
	}
	for r := round - 8; r < round; r++ {
		if w.incompat[[2]uint64{k, r}] == 0 {
			return false
		}
	}
	return true
}
