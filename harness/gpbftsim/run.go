package gpbftsim

import (
	"context"
	"fmt"
	"time"

	"github.com/filecoin-project/go-f3/gpbft"
	"github.com/filecoin-project/go-f3/pmsg"
	"github.com/filecoin-project/go-f3/sim/signing"
	"github.com/filecoin-project/go-f3/zz_verif/kernel"
)

// drawConfig is the swarm draw: everything about a run that is not decided later event by event.
func drawConfig(prop, tier string, c *kernel.Chooser) Config {
	thorough := tier == "thorough"
	var cfg Config
	switch prop {
	case "C06":
		cfg.Mode = ModeLiveness
	case "C02":
		if c.Chance(300) {
			cfg.Mode = ModeGoodCase
		}
	}
	maxN := 7
	if thorough {
		maxN = 12
		if c.Chance(100) {
			maxN = 30
		}
	}
	cfg.N = c.Range(3, maxN)
	if c.Chance(50) {
		cfg.N = c.Range(1, 2)
	}
	cfg.K = 1
	if c.Chance(350) {
		cfg.K = c.Range(2, 3)
		if thorough && c.Chance(300) {
			cfg.K = c.Range(4, 8)
		}
	}
	deltas := []time.Duration{100 * time.Millisecond, time.Second, 3 * time.Second}
	cfg.Delta = deltas[c.Intn(len(deltas))]
	cfg.BackOff = []float64{2.0, 1.3, 1.0, 1.7}[c.Intn(4)]
	cfg.QualMulti = []float64{1.0, 1.5, 2.0, 0.5}[c.Intn(4)]
	if cfg.Mode == ModeGoodCase && cfg.QualMulti < 1 {
		cfg.QualMulti = 1
	}
	cfg.Lookahead = uint64(c.Intn(6))
	cfg.RebcastImmediatelyAfter = uint64([]int{3, 0, 1, 2}[c.Intn(4)])
	cfg.RebcastBase = cfg.Delta * time.Duration(1+c.Intn(3))
	cfg.RebcastMax = cfg.RebcastBase * time.Duration(1+c.Intn(10))
	cfg.CommitteeLookback = uint64([]int{10, 2, 3, 5}[c.Intn(4)])
	cfg.WireCodec = true
	cfg.PartialPath = cfg.Mode == ModeSafety && prop != "C05" && prop != "C13" && c.Chance(350)
	cfg.CacheInstances = []int{10, 1, 2, 3}[c.Intn(4)]
	cfg.CacheMsgs = []int{1000, 4, 64, 256}[c.Intn(4)]
	cfg.MaxChain = c.Range(1, 6)
	if thorough && c.Chance(30) {
		cfg.MaxChain = 127
	}
	if cfg.Mode == ModeGoodCase && c.Chance(250) {
		cfg.MaxChain = 127 // common inputs up to the maximum chain length
	}
	cfg.Branches = c.Range(1, 3)

	// roles and powers
	cfg.Roles = make([]Role, cfg.N)
	profile := c.Intn(6)
	base := make([]int64, cfg.N)
	for i := range base {
		switch profile {
		case 0: // uniform
			base[i] = 100
		case 1: // one whale
			base[i] = 10
			if i == 0 {
				base[i] = int64(10 * cfg.N / 2)
			}
		case 2: // geometric
			base[i] = int64(1) << uint(c.Intn(10))
		case 3: // random
			base[i] = int64(1 + c.Intn(1000))
		case 5: // byte-scale powers (around 2^47..2^60), as on a real network
			base[i] = int64(1)<<uint(47+c.Intn(13)) + int64(c.Intn(1<<30))
		case 4: // with dust members whose scaled power is 0
			base[i] = int64(100000 + c.Intn(100000))
			if i > 0 && c.Chance(300) {
				base[i] = 1
			}
		}
	}
	cfg.Powers = make([][]int64, cfg.K+1)
	for k := 0; k <= cfg.K; k++ {
		cfg.Powers[k] = make([]int64, cfg.N)
		for i := range base {
			p := base[i]
			if k > 0 && c.Chance(250) {
				switch c.Intn(3) {
				case 0:
					p = p * int64(1+c.Intn(3))
				case 1:
					p = p/2 + 1
				case 2:
					if i > 0 {
						p = 0 // leaves the table
					}
				}
			}
			cfg.Powers[k][i] = p
		}
	}
	// camps
	cfg.Camp = make([]int, cfg.N)
	for i := range cfg.Camp {
		cfg.Camp[i] = c.Intn(2)
	}
	cfg.CampInputs = c.Chance(400)
	if cfg.CampInputs && cfg.Branches < 2 {
		cfg.Branches = 2
	}
	if cfg.N >= 3 && c.Chance(250) && cfg.Mode != ModeGoodCase {
		drawBoundary(&cfg, c)
	}
	// liveness at the edge of its premise: the members that ever speak after stabilisation hold
	// exactly two thirds of a scaled total divisible by three (equal powers, N a multiple of 3);
	// the last third is one Byzantine member (if that is below a third) and crash-silent ones
	if cfg.Mode == ModeLiveness && c.Chance(120) {
		cfg.ExactTwoThirds = true
		cfg.Boundary = false
		cfg.N = []int{6, 3, 9, 6}[c.Intn(4)]
		if thorough && c.Chance(300) {
			cfg.N = 12
		}
		cfg.Roles = make([]Role, cfg.N)
		for k := range cfg.Powers {
			cfg.Powers[k] = make([]int64, cfg.N)
			for i := range cfg.Powers[k] {
				cfg.Powers[k][i] = 100
			}
		}
		cfg.Camp = make([]int, cfg.N)
		for i := range cfg.Camp {
			cfg.Camp[i] = c.Intn(2)
		}
		perm := c.Perm(cfg.N)
		for j, i := range perm {
			switch {
			case j < 2*cfg.N/3:
				cfg.Roles[i] = Honest
			case j == 2*cfg.N/3 && cfg.N >= 6 && c.Chance(700):
				cfg.Roles[i] = Byzantine
			default:
				cfg.Roles[i] = Silent
			}
		}
	}
	// assign faulty roles greedily under the < 1/3 budget of every table (scaled power)
	if cfg.Boundary || cfg.ExactTwoThirds {
		// roles fixed by drawBoundary / above
	} else if prop != "C02" || cfg.Mode != ModeGoodCase {
		want := c.Intn(cfg.N/3 + 2)
		for t := 0; t < want; t++ {
			i := c.Intn(cfg.N)
			if cfg.Roles[i] != Honest {
				continue
			}
			r := Byzantine
			if c.Chance(250) {
				r = Silent
			}
			cfg.Roles[i] = r
			if !faultyWithinBudget(&cfg) {
				cfg.Roles[i] = Honest
			}
		}
	}
	// optionally one honest member with a deviating view of the base (see Config.Deviant)
	cfg.Deviant = -1
	if (prop == "C01" || prop == "C02") && cfg.Mode == ModeSafety && cfg.N >= 4 && !cfg.Boundary && c.Chance(80) {
		for i, r := range cfg.Roles {
			if r == Honest && cfg.Powers[0][i] > 0 && (cfg.Deviant < 0 || cfg.Powers[0][i] < cfg.Powers[0][cfg.Deviant]) {
				cfg.Deviant = i
			}
		}
		cfg.DeviantKind = c.Intn(3)
	}
	// rarely: one honest member is handed an EC chain longer than a proposal may be
	if (prop == "C02" || prop == "C06" || prop == "C07") && cfg.Mode != ModeGoodCase && cfg.N >= 2 && c.Chance(15) {
		for i, r := range cfg.Roles {
			if r == Honest && cfg.Powers[0][i] > 0 && (!cfg.OverLong || c.Chance(400)) {
				cfg.OverLong, cfg.OverLongMember = true, i
			}
		}
	}
	// network
	cfg.BaseLatency = []time.Duration{0, cfg.Delta / 20, cfg.Delta / 4, cfg.Delta / 2, cfg.Delta}[c.Intn(5)]
	cfg.Jitter = []time.Duration{time.Millisecond, cfg.Delta / 10, cfg.Delta, 3 * cfg.Delta}[c.Intn(4)]
	if cfg.Mode == ModeSafety && c.Chance(400) {
		cfg.DropPm = []int{10, 50, 150, 300}[c.Intn(4)]
	}
	if c.Chance(400) {
		cfg.DupPm = []int{20, 100, 300}[c.Intn(3)]
	}
	if c.Chance(500) {
		cfg.LongDelayPm = []int{10, 50, 200}[c.Intn(3)]
		cfg.LongDelayMax = cfg.Delta * time.Duration(1+c.Intn(40))
	}
	cfg.SelfDelay = c.Chance(300)
	cfg.Partition = c.Chance(300)
	cfg.Holds = c.Chance(300)
	cfg.ClockSkew = c.Chance(400)
	if c.Chance(600) {
		cfg.StartStagger = cfg.Delta * time.Duration(c.Intn(8))
	}
	if c.Chance(300) {
		cfg.AlarmLatePm = []int{50, 300}[c.Intn(2)]
		cfg.AlarmLateMax = cfg.Delta * time.Duration(1+c.Intn(5))
	}
	cfg.CatchUp = c.Chance(500)
	cfg.Restarts = c.Chance(250)
	cfg.ByzStrategy = c.Intn(6)
	if prop == "C02" && c.Chance(300) {
		cfg.ByzStrategy = 5
	}
	if cfg.Boundary && c.Chance(700) {
		cfg.ByzStrategy = 3 + c.Intn(2)
	}
	// link policies
	if cfg.Mode != ModeGoodCase && c.Chance(450) {
		cfg.LinkPolicy = make([][]uint8, cfg.N)
		for i := range cfg.LinkPolicy {
			cfg.LinkPolicy[i] = make([]uint8, cfg.N)
		}
		kind := c.Intn(3)
		pol := uint8(1 + c.Intn(2))
		fav := c.Intn(cfg.N)
		for i := 0; i < cfg.N; i++ {
			for j := 0; j < cfg.N; j++ {
				switch kind {
				case 0: // camp partition
					if cfg.Camp[i] != cfg.Camp[j] {
						cfg.LinkPolicy[i][j] = pol
					}
				case 1: // favourite: everybody but one member is starved
					if j != fav && i != j {
						cfg.LinkPolicy[i][j] = pol
					}
				case 2: // random links
					if i != j && c.Chance(300) {
						cfg.LinkPolicy[i][j] = uint8(1 + c.Intn(2))
					}
				}
			}
		}
		cfg.PolicyMask = []uint8{0x3e, 1 << 4, 1<<4 | 1<<5, 1 << 3, 1<<3 | 1<<4, 1 << 5, 1 << 1, 1 << 2}[c.Intn(8)]
		cfg.PolicySlow = cfg.Delta * time.Duration(2+c.Intn(30))
	}
	cfg.ByzRate = []int{0, 100, 300, 700}[c.Intn(4)]
	cfg.ByzTicks = c.Intn(30)
	cfg.MaxSteps = 6000
	cfg.MaxRounds = 10
	if thorough {
		cfg.MaxSteps = 30000
		cfg.MaxRounds = 20
	}
	if cfg.Mode == ModeGoodCase {
		cfg.DropPm, cfg.DupPm, cfg.LongDelayPm, cfg.AlarmLatePm = 0, 0, 0, 0
		cfg.Partition, cfg.Holds, cfg.ClockSkew, cfg.Restarts = false, false, false, false
		cfg.StartStagger = 0
		cfg.ByzRate, cfg.ByzTicks = 0, 0
		cfg.K = 1
		cfg.Powers = cfg.Powers[:2]
	}
	if cfg.Mode == ModeLiveness {
		cfg.DropPm = 0
		cfg.Restarts = false
		cfg.CatchUp = false
		cfg.GST = cfg.Delta * time.Duration(c.Intn(60))
		cfg.MaxSteps = 200000
		cfg.MaxRounds = 1 << 30
		if cfg.K > 1 {
			// consecutive instances: keep the look-back wide enough so that nothing between
			// honest members is refused for lack of a committee
			cfg.CommitteeLookback = 10
		}
	}
	return cfg
}

// drawBoundary builds the boundary power profile: total unscaled power 65536, so that every
// member's scaled power is its power minus one; the faulty coalition holds the largest scaled
// power B with 3B < T and the honest members are split into two camps of (almost) equal power.
func drawBoundary(cfg *Config, c *kernel.Chooser) {
	n := cfg.N
	nByz := 1 + c.Intn(max(1, n/3))
	nA := 1 + c.Intn(max(1, (n-nByz)/2))
	nB := n - nByz - nA
	if nB < 1 {
		return
	}
	T := int64(65536 - n)
	B := (T+2)/3 - 1 // largest B with 3B < T
	H := T - B
	A := (H + 1) / 2
	split := func(total int64, k int) []int64 {
		// k positive scaled powers summing to total
		out := make([]int64, k)
		rest := total
		for i := 0; i < k-1; i++ {
			maxv := rest - int64(k-1-i)
			v := int64(1)
			if maxv > 1 {
				v = 1 + int64(c.Intn(int(min(maxv-1, 1<<30))+1))
			}
			out[i] = v
			rest -= v
		}
		out[k-1] = rest
		return out
	}
	if B < int64(nByz) || A < int64(nA) || H-A < int64(nB) {
		return
	}
	bs, as, bbs := split(B, nByz), split(A, nA), split(H-A, nB)
	cfg.Boundary = true
	cfg.Roles = make([]Role, n)
	base := make([]int64, n)
	i := 0
	for _, v := range bs {
		cfg.Roles[i] = Byzantine
		base[i] = v + 1
		i++
	}
	for _, v := range as {
		cfg.Camp[i] = 0
		base[i] = v + 1
		i++
	}
	for _, v := range bbs {
		cfg.Camp[i] = 1
		base[i] = v + 1
		i++
	}
	for k := range cfg.Powers {
		cfg.Powers[k] = append([]int64(nil), base...)
	}
	cfg.CampInputs = c.Chance(800)
	if cfg.CampInputs && cfg.Branches < 2 {
		cfg.Branches = 2
	}
}

// faultyWithinBudget checks 3*B < T and honest >= ceil(2T/3) in every table, with the
// harness's own arithmetic.
func faultyWithinBudget(cfg *Config) bool {
	for k := 0; k < cfg.K; k++ {
		var entries gpbft.PowerEntries
		for i, p := range cfg.Powers[k] {
			if p > 0 {
				entries = append(entries, gpbft.PowerEntry{ID: gpbft.ActorID(i + 1), Power: gpbft.NewStoragePower(p)})
			}
		}
		scaled, T, _ := scaledPowers(entries)
		var B, H, byz int64
		for i, r := range cfg.Roles {
			s := scaled[gpbft.ActorID(i+1)]
			if r == Honest {
				H += s
			} else {
				B += s
				if r == Byzantine {
					byz += s
				}
			}
		}
		if cfg.ExactTwoThirds {
			// the premise of C06 itself: honest members hold a strong quorum, message-sending
			// faulty members less than a third (the rest of the faulty third is crash-silent)
			if T == 0 || 3*byz >= T || !isStrong(H, T) {
				return false
			}
			continue
		}
		if T == 0 || 3*B >= T || !isStrong(H, T) {
			return false
		}
	}
	return true
}

func newWorld(prop, tier string, c *kernel.Chooser, r *kernel.Recorder) *World {
	w := &World{c: c, r: r, prop: prop, tier: tier, nn: "verif", ctx: context.Background(),
		t0: time.Date(2024, 1, 1, 0, 0, 0, 0, time.UTC), sig: signing.NewFakeBackend(), roundAtGST: map[uint64]uint64{}, pmm: new(pmsg.PartialMessageManager)}
	w.cfg = drawConfig(prop, tier, c)
	cfg := &w.cfg
	// every table must keep the honest strong quorum; otherwise fall back to all-honest
	if !faultyWithinBudget(cfg) {
		for i := range cfg.Roles {
			cfg.Roles[i] = Honest
		}
		if !faultyWithinBudget(cfg) {
			// a table without any power: make powers uniform
			for k := range cfg.Powers {
				for i := range cfg.Powers[k] {
					cfg.Powers[k][i] = 100
				}
			}
		}
	}
	for i := 0; i < cfg.N; i++ {
		pub, _ := w.sig.GenerateKey()
		m := &Member{Idx: i, ID: gpbft.ActorID(i + 1), Pub: pub, Role: cfg.Roles[i], w: w, rateNum: 1000,
			sent: map[uint64]map[slot]*gpbft.GMessage{}, decisions: map[uint64]*gpbft.Justification{}, inputs: map[uint64]*gpbft.ECChain{}}
		if cfg.ClockSkew && cfg.Mode != ModeGoodCase {
			m.anchorL = c.Dur(0, 10*cfg.Delta)
			m.rateNum = int64(c.Range(950, 1050))
		}
		w.members = append(w.members, m)
	}
	w.buildTables()
	for _, m := range w.members {
		if m.Role == Honest {
			w.spawn(m)
		}
	}
	w.byz = newByz(w)
	gpbft.VerifSetDrainOrder(func(n int) []int {
		w.r.Probe("drain_order_permuted")
		return w.c.Perm(n)
	})
	if prop == "C05" || prop == "C13" {
		w.vo = newValidatorOracle(w)
	}
	return w
}

func (w *World) gpbftOptions() []gpbft.Option {
	cfg := &w.cfg
	return []gpbft.Option{
		gpbft.WithDelta(cfg.Delta),
		gpbft.WithDeltaBackOffExponent(cfg.BackOff),
		gpbft.WithQualityDeltaMultiplier(cfg.QualMulti),
		gpbft.WithMaxLookaheadRounds(cfg.Lookahead),
		gpbft.WithRebroadcastBackoff(1.3, 0, cfg.RebcastBase, cfg.RebcastMax),
		gpbft.WithRebroadcastImmediatelyAfterRound(cfg.RebcastImmediatelyAfter),
		gpbft.WithCommitteeLookback(cfg.CommitteeLookback),
		gpbft.WithMaxCachedInstances(cfg.CacheInstances),
		gpbft.WithMaxCachedMessagesPerInstance(cfg.CacheMsgs),
	}
}

// spawn creates a fresh Participant (first start or restart) for an honest member.
func (w *World) spawn(m *Member) {
	m.host = &Host{m: m, w: w}
	m.disc = newDiscipline(m)
	p, err := gpbft.NewParticipant(m.host, w.gpbftOptions()...)
	if err != nil {
		kernel.Infra("NewParticipant: %v", err)
	}
	m.part = p
	m.incarnation++
	if m.alarm != nil {
		m.alarm.Dead = true
		m.alarm = nil
	}
}

// startAt mirrors gpbftRunner.startInstanceAt: StartInstanceAt, then replay of the member's own
// logged messages for that instance.
func (w *World) startAt(m *Member, k uint64, when time.Time) {
	before := m.part.Progress()
	err := m.part.StartInstanceAt(k, when)
	m.disc.onAPIReturn()
	m.started = true
	w.r.Tracef("t=%d start p=%d k=%d", w.now(), m.ID, k)
	// StartInstanceAt may legitimately move to any instance (also backwards after a restart)
	if err != nil {
		w.afterAPI(m, before, "StartInstanceAt", nil, err)
	}
	var own []*gpbft.GMessage
	for _, msg := range m.sent[k] {
		own = append(own, msg)
	}
	sortMsgs(own)
	for _, msg := range own {
		cp := cloneMsg(msg)
		vm, err := m.part.ValidateMessage(w.ctx, cp)
		if err != nil {
			continue
		}
		b := m.part.Progress()
		m.disc.beforeDeliver(cp)
		err = m.part.ReceiveMessage(w.ctx, vm)
		m.disc.onAPIReturn()
		w.afterAPI(m, b, "ReceiveMessage", cp, err)
		w.r.Probe("replayed_own_message")
	}
}

func sortMsgs(ms []*gpbft.GMessage) {
	for i := 1; i < len(ms); i++ {
		for j := i; j > 0; j-- {
			a, b := ms[j-1], ms[j]
			if a.Vote.Round < b.Vote.Round || (a.Vote.Round == b.Vote.Round && a.Vote.Phase <= b.Vote.Phase) {
				break
			}
			ms[j-1], ms[j] = b, a
		}
	}
}

func (w *World) honest() []*Member {
	var hs []*Member
	for _, m := range w.members {
		if m.Role == Honest {
			hs = append(hs, m)
		}
	}
	return hs
}

func (w *World) scheduleFaults() {
	c, cfg := w.c, &w.cfg
	horizon := cfg.Delta * 60
	if cfg.Mode == ModeLiveness {
		horizon = cfg.GST
	}
	if horizon <= 0 {
		return
	}
	if cfg.Partition && cfg.N >= 2 {
		start := c.Dur(0, horizon)
		end := start + c.Dur(cfg.Delta, 30*cfg.Delta)
		side := map[int]bool{}
		for i := 0; i < cfg.N; i++ {
			side[i] = c.Chance(500)
		}
		ev := w.s.At(start, func() {
			w.partition = map[[2]int]bool{}
			for i := 0; i < cfg.N; i++ {
				for j := 0; j < cfg.N; j++ {
					if side[i] != side[j] {
						w.partition[[2]int{i, j}] = true
					}
				}
			}
			w.partitionEnds = end
			w.r.Fault("partition")
			w.r.Tracef("t=%d partition until %d", w.now(), end)
		})
		ev.Tag = tagOther
		ev2 := w.s.At(end, func() { w.partition = nil; w.r.Tracef("t=%d heal", w.now()) })
		ev2.Tag = tagOther
	}
	if cfg.Holds {
		n := 1 + c.Intn(3)
		for i := 0; i < n; i++ {
			hs := w.honest()
			if len(hs) == 0 {
				break
			}
			m := hs[c.Intn(len(hs))]
			start := c.Dur(0, horizon)
			dur := c.Dur(cfg.Delta, 20*cfg.Delta)
			ev := w.s.At(start, func() {
				if w.gstReached {
					return
				}
				m.heldUntil = w.now() + dur
				w.r.Fault("hold")
				w.r.Tracef("t=%d hold p=%d for %d", w.now(), m.ID, dur)
			})
			ev.Tag = tagOther
		}
	}
	for i := 0; i < cfg.ByzTicks; i++ {
		ev := w.s.At(c.Dur(0, horizon), func() { w.byz.move() })
		ev.Tag = tagOther
	}
	if cfg.Restarts {
		n := 1 + c.Intn(2)
		for i := 0; i < n; i++ {
			hs := w.honest()
			m := hs[c.Intn(len(hs))]
			ev := w.s.At(c.Dur(0, horizon), func() { w.restart(m) })
			ev.Tag = tagOther
		}
	}
	if cfg.CatchUp {
		n := 1 + c.Intn(3)
		for i := 0; i < n; i++ {
			ev := w.s.At(c.Dur(0, horizon*2), func() { w.catchUp() })
			ev.Tag = tagOther
		}
	}
}

// restart replaces an honest member's participant by a fresh one that resumes from its log.
func (w *World) restart(m *Member) {
	if m.done || !m.started || w.gstReached {
		return
	}
	k := m.part.Progress().ID
	w.r.Fault("restart")
	w.r.Tracef("t=%d restart p=%d at instance %d", w.now(), m.ID, k)
	w.spawn(m)
	// The next instance is the one after the last decision on record (certstore), as in F3.
	next := uint64(0)
	for kk := range m.decisions {
		if kk+1 > next {
			next = kk + 1
		}
	}
	if w.instance(next) == nil {
		m.done = true
		return
	}
	// A restarted node may see a different EC head: redraw its input unless it already has
	// messages on record for that instance (then the filter would suppress a conflicting vote
	// anyway; both paths are explored).
	if info := w.instance(next); info.treeBuilt && w.c.Chance(500) {
		delete(m.inputs, next)
		delete(info.Inputs, m.Idx)
		w.r.Probe("restart_with_new_input")
	}
	w.startAt(m, next, m.localTime(w.now()).Add(w.c.Dur(0, 2*w.cfg.Delta)))
}

// catchUp emulates certificate exchange: a lagging member learns the decision of an
// instance from a peer and skips forward.
func (w *World) catchUp() {
	if w.gstReached {
		return
	}
	hs := w.honest()
	if len(hs) < 2 {
		return
	}
	m := hs[w.c.Intn(len(hs))]
	if m.done || !m.started {
		return
	}
	cur := m.part.Progress().ID
	// find the highest instance >= cur decided by somebody else
	var best *gpbft.Justification
	for _, o := range hs {
		for k, d := range o.decisions {
			if k >= cur && (best == nil || k > best.Vote.Instance) {
				if _, mine := m.decisions[k]; !mine {
					best = d
				}
			}
		}
	}
	if best == nil {
		return
	}
	// all intermediate decisions become known too (certificates are fetched in order)
	for _, o := range hs {
		for k, d := range o.decisions {
			if k >= cur && k <= best.Vote.Instance {
				if _, ok := m.decisions[k]; !ok {
					m.decisions[k] = d
				}
			}
		}
	}
	next := best.Vote.Instance + 1
	w.r.Fault("catch_up")
	w.r.Tracef("t=%d catchup p=%d from %d to %d", w.now(), m.ID, cur, next)
	if w.instance(next) == nil {
		m.done = true
		if m.alarm != nil {
			m.alarm.Dead = true
		}
		return
	}
	w.startAt(m, next, m.localTime(w.now()).Add(w.c.Dur(0, w.cfg.Delta)))
}

// enterGST switches the network to timely delivery (C06).
func (w *World) enterGST() {
	cfg := &w.cfg
	w.gstReached = true
	w.r.Tracef("t=%d GST", w.now())
	w.partition = nil
	for _, m := range w.members {
		m.heldUntil = 0
		if m.Role == Honest && m.part != nil && m.started {
			p := m.part.Progress()
			if p.Round > w.roundAtGST[p.ID] {
				w.roundAtGST[p.ID] = p.Round
			}
		}
	}
	// reschedule everything in flight
	var evs []*kernel.Event
	w.s.Each(func(e *kernel.Event) {
		if !e.Dead {
			evs = append(evs, e)
		}
	})
	// deterministic order
	for i := 1; i < len(evs); i++ {
		for j := i; j > 0 && evs[j-1].Seq > evs[j].Seq; j-- {
			evs[j-1], evs[j] = evs[j], evs[j-1]
		}
	}
	for _, e := range evs {
		switch {
		case e.Tag == tagDeliver:
			if lim := w.now() + w.c.Dur(0, cfg.Delta-time.Microsecond); e.At > lim {
				w.s.Reschedule(e, lim)
			}
		case e.Tag == tagDeliver|0x100:
			// sent by a faulty member before GST: delivered timely or lost
			if w.c.Chance(500) {
				e.Dead = true
			} else if lim := w.now() + w.c.Dur(0, cfg.Delta-time.Microsecond); e.At > lim {
				w.s.Reschedule(e, lim)
			}
		case e.Tag == tagOther:
			e.Dead = true // no further faults or Byzantine moves
		}
	}
	// clocks run at rate 1 from now on (offsets remain); alarms are re-armed with bounded lateness
	for _, m := range w.members {
		m.setRate(w.now(), 1000)
		if m.Role == Honest && m.part != nil {
			w.armAlarm(m)
		}
	}
}

// Run executes one complete simulated run.
func Run(prop, tier string, c *kernel.Chooser, r *kernel.Recorder) *kernel.Violation {
	w := newWorld(prop, tier, c, r)
	cfg := &w.cfg
	r.Sample["config"] = fmt.Sprintf("mode=%d N=%d K=%d roles=%v powers=%v delta=%v backoff=%v lookahead=%d drop=%d dup=%d long=%d part=%v holds=%v skew=%v byz=%d/%d/%d gst=%v chain<=%d branches=%d",
		cfg.Mode, cfg.N, cfg.K, cfg.Roles, cfg.Powers, cfg.Delta, cfg.BackOff, cfg.Lookahead, cfg.DropPm, cfg.DupPm, cfg.LongDelayPm,
		cfg.Partition, cfg.Holds, cfg.ClockSkew, cfg.ByzStrategy, cfg.ByzRate, cfg.ByzTicks, cfg.GST, cfg.MaxChain, cfg.Branches)
	r.Tracef("config %s", r.Sample["config"])
	for _, m := range w.honest() {
		m := m
		d := time.Duration(0)
		if cfg.StartStagger > 0 {
			d = c.Dur(0, cfg.StartStagger)
		}
		if cfg.Mode == ModeLiveness && d > cfg.GST {
			d = cfg.GST // every honest member starts before stabilisation
		}
		ev := w.s.At(d, func() { w.startAt(m, 0, m.localTime(w.now())) })
		ev.Tag = tagDeliver // not cancelled by GST
		ev.Actor = m.Idx
	}
	w.scheduleFaults()
	if cfg.Mode == ModeLiveness {
		w.s.At(cfg.GST, func() { w.enterGST() })
	}
	// Wall-clock cap per run (the worker has to end within its budget): a run that is cut short
	// has passed every check made so far; nothing is concluded from its remainder (liveness
	// verdicts need an empty event queue or an exceeded round bound, see finalLiveness).
	wallStart, wallCap := time.Now(), 40*time.Second
	if tier == "thorough" {
		wallCap = 100 * time.Second
	}
	for w.viol == nil && w.s.Steps < cfg.MaxSteps {
		if !w.s.Step() {
			break
		}
		if w.s.Steps%256 == 0 && time.Since(wallStart) > wallCap {
			r.Probe("run_cut_short_wall_clock")
			break
		}
		if w.allDone() {
			break
		}
		if w.roundCapExceeded() {
			r.Probe("round_cap")
			break
		}
		if cfg.Mode == ModeLiveness && w.gstReached {
			w.checkLiveness()
		}
	}
	if cfg.Mode == ModeLiveness && w.viol == nil {
		w.finalLiveness()
	}
	r.Steps = w.s.Steps
	r.SimTime = w.s.Now()
	decided := 0
	for _, m := range w.honest() {
		decided += len(m.decisions)
	}
	r.Sample["outcome"] = fmt.Sprintf("steps=%d sim=%v decisions=%d", w.s.Steps, w.s.Now(), decided)
	if w.s.Steps >= cfg.MaxSteps {
		r.Probe("step_cap")
	}
	return w.viol
}

func (w *World) allDone() bool {
	for _, m := range w.honest() {
		if m.deviant {
			continue // can never decide: nobody shares its base
		}
		if !m.done {
			return false
		}
	}
	return true
}

func (w *World) roundCapExceeded() bool {
	for _, m := range w.honest() {
		if m.part != nil && m.started && m.part.Progress().Round > w.cfg.MaxRounds {
			return true
		}
	}
	return false
}
