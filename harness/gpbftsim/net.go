package gpbftsim

import (
	"strings"
	"bytes"
	"errors"
	"fmt"
	"time"

	"github.com/filecoin-project/go-f3/gpbft"
	"github.com/filecoin-project/go-f3/pmsg"
	"github.com/filecoin-project/go-f3/zz_verif/kernel"
)

func msgStr(m *gpbft.GMessage) string {
	j := "-"
	if m.Justification != nil {
		j = fmt.Sprintf("J(%s r%d %s)", m.Justification.Vote.Phase, m.Justification.Vote.Round, chainStr(m.Justification.Vote.Value))
	}
	return fmt.Sprintf("from=%d k=%d r=%d %s v=%s %s", m.Sender, m.Vote.Instance, m.Vote.Round, m.Vote.Phase, chainStr(m.Vote.Value), j)
}

func cloneMsg(m *gpbft.GMessage) *gpbft.GMessage {
	var buf bytes.Buffer
	if err := m.MarshalCBOR(&buf); err != nil {
		return nil
	}
	var out gpbft.GMessage
	if err := out.UnmarshalCBOR(&buf); err != nil {
		return nil
	}
	return &out
}

// delay draws the network delay for one delivery.
func (w *World) delay(from, to int) time.Duration {
	cfg := &w.cfg
	if w.gstReached || cfg.Mode == ModeGoodCase {
		// timely network: strictly below Delta
		return w.c.Dur(0, cfg.Delta-time.Microsecond)
	}
	if from == to && !cfg.SelfDelay {
		return 0
	}
	d := cfg.BaseLatency + w.c.Dur(0, cfg.Jitter)
	if cfg.LongDelayPm > 0 && w.c.Chance(cfg.LongDelayPm) {
		d += w.c.Dur(0, cfg.LongDelayMax)
		w.r.Fault("long_delay")
	}
	return d
}

// publish puts an honest member's message on the simulated wire.
func (w *World) publish(from *Member, msg *gpbft.GMessage, re bool) {
	w.r.Tracef("t=%d send %s re=%v", w.now(), msgStr(msg), re)
	w.r.Sigf("s%d:%d:%d:%d:%x|", from.ID, msg.Vote.Instance, msg.Vote.Round, msg.Vote.Phase, keyPrefix(msg.Vote.Value))
	w.onWire(from, msg)
	if w.byz != nil {
		w.byz.observe(msg)
	}
	for _, to := range w.members {
		if to.Role != Honest {
			continue
		}
		w.send(from.Idx, to, msg, false)
	}
	if w.byz != nil && !w.gstReached {
		w.byz.react(msg)
	}
}

func keyPrefix(c *gpbft.ECChain) []byte {
	k := c.Key()
	return k[:4]
}

// send schedules one delivery, applying drop/dup/partition faults.
func (w *World) send(from int, to *Member, msg *gpbft.GMessage, fromByz bool) {
	cfg := &w.cfg
	lossy := cfg.Mode == ModeSafety || fromByz
	if w.gstReached && !fromByz {
		lossy = false
	}
	if lossy && cfg.DropPm > 0 && !(fromByz && cfg.ByzStrategy >= 3) && w.c.Chance(cfg.DropPm) {
		w.r.Fault("drop")
		return
	}
	d := w.delay(from, to.Idx)
	if fromByz && cfg.ByzStrategy >= 3 {
		d = 0 // the coordinated adversary delivers its own messages immediately
		lossy = false
	}
	if cfg.LinkPolicy != nil && !fromByz && !w.gstReached && cfg.PolicyMask&(1<<uint(msg.Vote.Phase)) != 0 {
		switch cfg.LinkPolicy[from][to.Idx] {
		case 1:
			d += cfg.PolicySlow + w.c.Dur(0, cfg.PolicySlow)
			w.r.Fault("link_slow")
		case 2:
			if lossy {
				w.r.Fault("link_drop")
				return
			}
			d += cfg.PolicySlow + w.c.Dur(0, cfg.PolicySlow)
			w.r.Fault("link_slow")
		}
	}
	at := w.now() + d
	if w.partition != nil && w.partition[[2]int{from, to.Idx}] && at < w.partitionEnds {
		if cfg.Mode == ModeSafety && w.c.Chance(500) {
			w.r.Fault("partition_drop")
			return
		}
		w.r.Fault("partition_hold")
		at = w.partitionEnds + w.c.Dur(0, cfg.Jitter)
	}
	w.schedDeliver(at, from, to, msg)
	if cfg.DupPm > 0 && !w.gstReached && w.c.Chance(cfg.DupPm) {
		w.r.Fault("dup")
		w.schedDeliver(at+w.c.Dur(0, 4*cfg.Delta), from, to, msg)
	}
}

type delivery struct {
	from int
	to   *Member
	msg  *gpbft.GMessage
	byz  bool
	// two-stage path (as in the node: partial message first, chain via chain exchange later)
	key       *gpbft.ECChainKey // announced key (nil = key of msg's own value)
	chain     *gpbft.ECChain    // completing chain (nil = msg's own value)
	pv        gpbft.PartiallyValidatedMessage
	completed bool
}

func (w *World) schedDeliver(at time.Duration, from int, to *Member, msg *gpbft.GMessage) {
	dl := &delivery{from: from, to: to, msg: msg, byz: w.members[from].Role != Honest}
	ev := w.s.At(at, func() { w.deliver(dl) })
	ev.Tag = tagDeliver
	ev.Actor = to.Idx
	if dl.byz {
		ev.Tag = tagDeliver | 0x100
	}
}

func (w *World) deliver(dl *delivery) {
	to := dl.to
	if to.Role != Honest || to.part == nil {
		return
	}
	if w.cfg.PartialPath && !dl.completed {
		w.deliverPartial(dl)
		return
	}
	if to.heldUntil > w.now() {
		w.r.Fault("held_delivery")
		w.schedDeliver(to.heldUntil+w.c.Dur(0, w.cfg.Jitter), dl.from, to, dl.msg)
		return
	}
	msg := dl.msg
	if w.cfg.WireCodec {
		msg = cloneMsg(dl.msg)
		if msg == nil {
			if !dl.byz {
				w.fail("C07", "emitted_not_encodable", "codec", "honest message does not survive the wire codec: %s", msgStr(dl.msg))
			}
			return
		}
	}
	before := to.part.Progress()
	if w.vo != nil {
		w.vo.beforeValidate(to, msg)
	}
	vm, err := to.part.ValidateMessage(w.ctx, msg)
	w.verifyHook = nil
	w.checkValidationSample(to, dl, msg, err)
	if err != nil {
		cls := errClass(err)
		w.r.Tracef("t=%d drop to=%d %s class=%s", w.now(), to.ID, msgStr(msg), cls)
		w.r.Probe("validation_" + cls)
		if !dl.byz && cls == "invalid" {
			w.fail("C07", "emitted_rejected_by_peer", "invalid:"+msg.Vote.Phase.String(),
				"honest message branded invalid by peer %d: %s: %v", to.ID, msgStr(msg), err)
		}
		if pe := (*gpbft.PanicError)(nil); errors.As(err, &pe) {
			w.fail("C07", "panic_in_validate", "validate", "panic validating %s at %d: %v", msgStr(msg), to.ID, err)
		}
		return
	}
	w.r.Tracef("t=%d recv to=%d %s", w.now(), to.ID, msgStr(msg))
	to.disc.beforeDeliver(msg)
	err = to.part.ReceiveMessage(w.ctx, vm)
	to.disc.onAPIReturn()
	w.afterAPI(to, before, "ReceiveMessage", msg, err)
}

func errClass(err error) string {
	switch {
	case err == nil:
		return "accept"
	case errors.Is(err, gpbft.ErrValidationInvalid):
		return "invalid"
	case errors.Is(err, gpbft.ErrValidationTooOld):
		return "tooold"
	case errors.Is(err, gpbft.ErrValidationNotRelevant):
		return "notrelevant"
	case errors.Is(err, gpbft.ErrValidationNoCommittee):
		return "nocommittee"
	case errors.Is(err, gpbft.ErrValidationWrongBase):
		return "wrongbase"
	case errors.Is(err, gpbft.ErrValidationWrongSupplement):
		return "wrongsupp"
	default:
		return "other"
	}
}

func (w *World) fireAlarm(m *Member, inc int) {
	if m.incarnation != inc || m.part == nil || m.done {
		return
	}
	if m.heldUntil > w.now() {
		w.r.Fault("held_alarm")
		ev := w.s.At(m.heldUntil, func() { w.fireAlarm(m, inc) })
		ev.Tag = tagAlarm
		ev.Actor = m.Idx
		m.alarm = ev
		return
	}
	m.alarm = nil
	m.alarmAt = time.Time{}
	before := m.part.Progress()
	w.r.Tracef("t=%d alarm p=%d at %d/%d/%s", w.now(), m.ID, before.ID, before.Round, before.Phase)
	err := m.part.ReceiveAlarm(w.ctx)
	m.disc.onAPIReturn()
	w.afterAPI(m, before, "ReceiveAlarm", nil, err)
}

// afterAPI evaluates the per-call discipline invariants (C07 (3),(4)).
func (w *World) afterAPI(m *Member, before gpbft.InstanceProgress, api string, msg *gpbft.GMessage, err error) {
	after := m.part.Progress()
	if lessInstant(after.Instant, before.Instant) {
		w.fail("C07", "progress_backwards", api, "member %d progress moved backwards %v -> %v in %s", m.ID, before.Instant, after.Instant, api)
	}
	if after.Instant != before.Instant {
		w.r.Sigf("p%d:%d:%d:%d|", m.ID, after.ID, after.Round, after.Phase)
		w.r.Tracef("t=%d progress p=%d %d/%d/%s", w.now(), m.ID, after.ID, after.Round, after.Phase)
		if after.ID == before.ID && after.Round > before.Round+1 {
			w.r.Probe("skip_to_round")
		}
		if after.Round > 0 && (after.ID != before.ID || before.Round == 0 && (before.Phase == gpbft.QUALITY_PHASE || before.Phase == gpbft.INITIAL_PHASE)) {
			if m.leftQualityBySkip == nil {
				m.leftQualityBySkip = map[uint64]bool{}
			}
			m.leftQualityBySkip[after.ID] = true
			w.r.Probe("left_quality_by_skip")
		}
		if after.Round > 0 && after.ID == before.ID && before.Round == 0 {
			w.r.Probe("left_round_0")
		}
	}
	if err != nil {
		var pe *gpbft.PanicError
		if errors.As(err, &pe) {
			w.fail("C07", "panic", api+":"+panicKey(pe), "member %d: %s returned PanicError: %.400s", m.ID, api, err.Error())
			return
		}
		cls := errClass(err)
		switch {
		case api == "ReceiveMessage" && (cls == "wrongbase" || cls == "wrongsupp"):
			// late-binding validation error: legitimate only for a message with a foreign base / supplement
			info := w.instance(msg.Vote.Instance)
			foreign := info == nil || !msg.Vote.SupplementalData.Eq(&info.Supp) ||
				(info.Base != nil && !msg.Vote.Value.IsZero() && !msg.Vote.Value.HasBase(info.Base))
			if !foreign {
				w.fail("C07", "spurious_late_validation_error", cls, "member %d rejected %s with %v", m.ID, msgStr(msg), err)
			} else {
				w.r.Probe("late_binding_" + cls)
			}
		default:
			key := api + ":" + normErr(err)
			if strings.Contains(key, "no values at CONVERGE") && !m.leftQualityBySkip[after.ID] {
				// Finding W1 explains this error only for a member that left QUALITY of the instance
				// by skipping to a later round (its proposal was never cut down to a QUALITY-backed
				// prefix); for a member that went through PREPARE of round 0 it is something else.
				key += " [member went through round 0]"
			}
			w.fail("C07", "internal_error", key, "member %d: %s returned error: %v (msg %v)", m.ID, api, err, msgOrNil(msg))
		}
	}
}

func msgOrNil(m *gpbft.GMessage) string {
	if m == nil {
		return "-"
	}
	return msgStr(m)
}

func panicKey(pe *gpbft.PanicError) string {
	s := fmt.Sprint(pe.Cause)
	if len(s) > 60 {
		s = s[:60]
	}
	return s
}

func normErr(err error) string {
	s := err.Error()
	// strip numbers so that the key identifies the call site, not the instance
	out := make([]byte, 0, len(s))
	for i := 0; i < len(s) && len(out) < 80; i++ {
		ch := s[i]
		if ch >= '0' && ch <= '9' {
			continue
		}
		out = append(out, ch)
	}
	return string(out)
}

func lessInstant(a, b gpbft.Instant) bool {
	if a.ID != b.ID {
		return a.ID < b.ID
	}
	if a.Round != b.Round {
		return a.Round < b.Round
	}
	return a.Phase < b.Phase
}

var _ = kernel.Mix

// deliverPartial is the node's two-stage path: the stripped message is validated on arrival with
// the announced key only; it is completed, fully validated and handed to the participant when
// the announced chain becomes known to the receiver (chain exchange), which may be much later.
func (w *World) deliverPartial(dl *delivery) {
	to := dl.to
	if to.heldUntil > w.now() {
		w.r.Fault("held_delivery")
		at := to.heldUntil + w.c.Dur(0, w.cfg.Jitter)
		ev := w.s.At(at, func() { w.deliver(dl) })
		ev.Tag, ev.Actor = tagDeliver, to.Idx
		return
	}
	if dl.pv == nil {
		// ---- stage 1: arrival of the partial message
		src := cloneMsg(dl.msg)
		if src == nil {
			return
		}
		p, err := w.pmm.ToPartialGMessage(src)
		if err != nil {
			return
		}
		if dl.key != nil {
			p.VoteValueKey = *dl.key
		}
		pv, err := to.part.PartiallyValidateMessage(w.ctx, p)
		if err != nil {
			cls := errClass(err)
			w.r.Probe("partial_validation_" + cls)
			w.r.Tracef("t=%d pdrop to=%d %s class=%s", w.now(), to.ID, msgStr(dl.msg), cls)
			if !dl.byz && cls == "invalid" {
				w.fail("C07", "emitted_rejected_by_peer", "invalid-partial:"+dl.msg.Vote.Phase.String(), "honest message branded invalid by peer %d on the partial path: %s: %v", to.ID, msgStr(dl.msg), err)
			}
			return
		}
		dl.pv = pv
		w.r.Probe("partial_validated")
		key := p.VoteValueKey
		if key.IsZero() {
			w.completePartial(dl)
			return
		}
		// when does the receiver learn the announced chain?
		if w.chainAvail == nil {
			w.chainAvail = map[int]map[gpbft.ECChainKey]time.Duration{}
		}
		if w.chainAvail[to.Idx] == nil {
			w.chainAvail[to.Idx] = map[gpbft.ECChainKey]time.Duration{}
		}
		avail, ok := w.chainAvail[to.Idx][key]
		if !ok {
			avail = w.now()
			if w.c.Chance(200) {
				avail += w.c.Dur(0, 8*w.cfg.Delta) // the chain broadcast is slow or withheld for a while
				w.r.Fault("chain_withheld")
			}
			w.chainAvail[to.Idx][key] = avail
		}
		if avail <= w.now() {
			w.completePartial(dl)
			return
		}
		ev := w.s.At(avail, func() { w.completePartial(dl) })
		ev.Tag, ev.Actor = tagDeliver, to.Idx
		if dl.byz {
			ev.Tag |= 0x100
		}
		return
	}
	w.completePartial(dl)
}

// completePartial is stage 2: the chain is known; complete, fully validate, receive.
func (w *World) completePartial(dl *delivery) {
	to := dl.to
	if to.part == nil {
		return
	}
	p := dl.pv.PartialMessage()
	chain := dl.chain
	if chain == nil {
		chain = dl.msg.Vote.Value
	}
	if !p.VoteValueKey.IsZero() {
		p.Vote.Value = &gpbft.ECChain{TipSets: append([]*gpbft.TipSet(nil), chain.TipSets...)}
		pmsg.VerifInferJustificationVoteValue(p)
	}
	before := to.part.Progress()
	vm, err := to.part.FullyValidateMessage(w.ctx, dl.pv)
	if err != nil {
		cls := errClass(err)
		w.r.Probe("full_validation_" + cls)
		w.r.Tracef("t=%d fdrop to=%d %s class=%s", w.now(), to.ID, msgStr(dl.msg), cls)
		if !dl.byz && cls == "invalid" {
			w.fail("C07", "emitted_rejected_by_peer", "invalid-full:"+dl.msg.Vote.Phase.String(), "honest message branded invalid by peer %d when completed: %s: %v", to.ID, msgStr(dl.msg), err)
		}
		return
	}
	msg := vm.Message()
	w.r.Tracef("t=%d recv2 to=%d %s", w.now(), to.ID, msgStr(msg))
	to.disc.beforeDeliver(msg)
	err = to.part.ReceiveMessage(w.ctx, vm)
	to.disc.onAPIReturn()
	w.afterAPI(to, before, "ReceiveMessage", msg, err)
}
