package gpbftsim

import (
	"fmt"
	"sort"
	"time"

	"github.com/filecoin-project/go-bitfield"
	rlepluslazy "github.com/filecoin-project/go-bitfield/rle"
	"github.com/filecoin-project/go-f3/gpbft"
	"github.com/filecoin-project/go-f3/zz_verif/kernel"
)

// Byz is the (single, coordinated) Byzantine adversary controlling all Byzantine members.
// It sees every message the moment it is put on the wire, signs only with its own members'
// keys, and aggregates only signatures it has observed plus its own.
type Byz struct {
	w       *World
	members []*Member
	mine    map[gpbft.ActorID]bool

	pool   map[poolKey]map[gpbft.ActorID][]byte
	chains map[uint64]map[gpbft.ECChainKey]*gpbft.ECChain
	justs  map[uint64][]*gpbft.Justification
	maxRound map[uint64]uint64
	curInst  uint64

	groupA map[int]bool // split strategy: honest members told value A
	withheld []*delivery

	// camps strategy
	campSent   map[campSlot]bool
	campTarget map[uint64][2]*gpbft.ECChain
	flipped    map[uint64]bool
	pursuing   bool
}

type campSlot struct {
	K      uint64
	Round  uint64
	Phase  gpbft.Phase
	Member int
	Camp   int
	Bottom bool
}

type poolKey struct {
	K     uint64
	Round uint64
	Phase gpbft.Phase
	Value gpbft.ECChainKey
}

func newByz(w *World) *Byz {
	b := &Byz{w: w, mine: map[gpbft.ActorID]bool{}, pool: map[poolKey]map[gpbft.ActorID][]byte{},
		chains: map[uint64]map[gpbft.ECChainKey]*gpbft.ECChain{}, justs: map[uint64][]*gpbft.Justification{},
		maxRound: map[uint64]uint64{}, groupA: map[int]bool{}, campSent: map[campSlot]bool{},
		campTarget: map[uint64][2]*gpbft.ECChain{}, flipped: map[uint64]bool{}}
	for _, m := range w.members {
		if m.Role == Byzantine {
			b.members = append(b.members, m)
			b.mine[m.ID] = true
		}
	}
	for _, m := range w.members {
		if m.Role == Honest && w.c.Chance(500) {
			b.groupA[m.Idx] = true
		}
	}
	return b
}

// sign signs with a Byzantine member's own key only.
func (b *Byz) sign(m *Member, payload []byte) []byte {
	if !b.mine[m.ID] || m.Role != Byzantine {
		kernel.Infra("adversary tried to sign with foreign key %d", m.ID)
	}
	sig, err := b.w.sig.Sign(b.w.ctx, m.Pub, payload)
	if err != nil {
		kernel.Infra("sign: %v", err)
	}
	return sig
}

func (b *Byz) learnChain(k uint64, c *gpbft.ECChain) {
	if c.IsZero() {
		return
	}
	if b.chains[k] == nil {
		b.chains[k] = map[gpbft.ECChainKey]*gpbft.ECChain{}
	}
	for l := 1; l <= c.Len(); l++ {
		p := &gpbft.ECChain{TipSets: c.TipSets[:l:l]}
		b.chains[k][p.Key()] = p
	}
}

func (b *Byz) addSig(k, round uint64, phase gpbft.Phase, v gpbft.ECChainKey, id gpbft.ActorID, sig []byte) {
	pk := poolKey{k, round, phase, v}
	if b.pool[pk] == nil {
		b.pool[pk] = map[gpbft.ActorID][]byte{}
	}
	if _, ok := b.pool[pk][id]; !ok {
		b.pool[pk][id] = sig
	}
}

// observe harvests an honest message seen on the wire.
func (b *Byz) observe(msg *gpbft.GMessage) {
	k := msg.Vote.Instance
	b.addSig(k, msg.Vote.Round, msg.Vote.Phase, msg.Vote.Value.Key(), msg.Sender, msg.Signature)
	b.learnChain(k, msg.Vote.Value)
	if msg.Justification != nil {
		b.justs[k] = append(b.justs[k], msg.Justification)
		if len(b.justs[k]) > 64 {
			b.justs[k] = b.justs[k][1:]
		}
	}
	if msg.Vote.Round > b.maxRound[k] {
		b.maxRound[k] = msg.Vote.Round
	}
	if k > b.curInst {
		b.curInst = k
	}
}

// justify tries to assemble a strong-quorum justification for (k, round, phase, value) from
// observed signatures plus the Byzantine members' own.
func (b *Byz) justify(k, round uint64, phase gpbft.Phase, value *gpbft.ECChain) *gpbft.Justification {
	info := b.w.instance(k)
	if info == nil {
		return nil
	}
	// a previously observed justification for exactly this works too
	for _, j := range b.justs[k] {
		if j.Vote.Round == round && j.Vote.Phase == phase && j.Vote.Value.Eq(value) && b.w.c.Chance(500) {
			return j
		}
	}
	payload := gpbft.Payload{Instance: k, Round: round, Phase: phase, SupplementalData: info.Supp, Value: value}
	bytesToSign := payload.MarshalForSigning(b.w.nn)
	sigs := map[gpbft.ActorID][]byte{}
	for id, s := range b.pool[poolKey{k, round, phase, value.Key()}] {
		sigs[id] = s
	}
	for _, m := range b.members {
		if info.Scaled[m.ID] > 0 {
			sigs[m.ID] = b.sign(m, bytesToSign)
		}
	}
	var power int64
	type ent struct {
		idx int
		id  gpbft.ActorID
	}
	var ents []ent
	for id := range sigs {
		if info.Scaled[id] <= 0 {
			continue
		}
		idx, ok := info.Table.Lookup[id]
		if !ok {
			continue
		}
		ents = append(ents, ent{idx, id})
		power += info.Scaled[id]
	}
	if !isStrong(power, info.T) {
		return nil
	}
	sort.Slice(ents, func(i, j int) bool { return ents[i].idx < ents[j].idx })
	// optionally trim to a minimal quorum (keeps Byzantine members first)
	if b.w.c.Chance(500) {
		sort.SliceStable(ents, func(i, j int) bool { return b.mine[ents[i].id] && !b.mine[ents[j].id] })
		var p int64
		cut := len(ents)
		for i, e := range ents {
			p += info.Scaled[e.id]
			if isStrong(p, info.T) {
				cut = i + 1
				break
			}
		}
		ents = ents[:cut]
		sort.Slice(ents, func(i, j int) bool { return ents[i].idx < ents[j].idx })
	}
	idxs := make([]int, len(ents))
	ss := make([][]byte, len(ents))
	u := make([]uint64, len(ents))
	for i, e := range ents {
		idxs[i] = e.idx
		u[i] = uint64(e.idx)
		ss[i] = sigs[e.id]
	}
	agg, err := info.Agg.Aggregate(idxs, ss)
	if err != nil {
		kernel.Infra("byz aggregate: %v", err)
	}
	ri, _ := rlepluslazy.RunsFromSlice(u)
	bf, _ := bitfield.NewFromIter(ri)
	return &gpbft.Justification{Vote: payload, Signers: bf, Signature: agg}
}

// craft builds a validly signed message from Byzantine member m, or nil if the needed
// justification cannot be assembled.
func (b *Byz) craft(m *Member, k, round uint64, phase gpbft.Phase, value *gpbft.ECChain) *gpbft.GMessage {
	info := b.w.instance(k)
	if info == nil || info.Scaled[m.ID] <= 0 {
		return nil
	}
	var just *gpbft.Justification
	switch phase {
	case gpbft.QUALITY_PHASE:
		if round != 0 || value.IsZero() {
			return nil
		}
	case gpbft.PREPARE_PHASE, gpbft.CONVERGE_PHASE:
		if phase == gpbft.CONVERGE_PHASE && (round == 0 || value.IsZero()) {
			return nil
		}
		if round > 1 && b.w.c.Chance(120) {
			// a genuine quorum from an earlier round than the previous one: not a valid
			// justification for this round, whatever it certifies
			stale := uint64(b.w.c.Intn(int(round - 1)))
			if b.w.c.Chance(700) {
				just = b.justify(k, stale, gpbft.COMMIT_PHASE, nil)
			}
			if just == nil && !value.IsZero() {
				just = b.justify(k, stale, gpbft.PREPARE_PHASE, value)
			}
			if just != nil {
				b.w.r.Probe("byz_stale_justification")
			}
		}
		if round > 0 && just == nil {
			if b.w.c.Chance(500) {
				just = b.justify(k, round-1, gpbft.COMMIT_PHASE, nil)
				if just == nil {
					just = b.justify(k, round-1, gpbft.PREPARE_PHASE, value)
				}
			} else {
				if !value.IsZero() {
					just = b.justify(k, round-1, gpbft.PREPARE_PHASE, value)
				}
				if just == nil {
					just = b.justify(k, round-1, gpbft.COMMIT_PHASE, nil)
				}
			}
			if just == nil {
				return nil
			}
		}
	case gpbft.COMMIT_PHASE:
		if !value.IsZero() {
			if round > 0 && b.w.c.Chance(80) {
				if just = b.justify(k, uint64(b.w.c.Intn(int(round))), gpbft.PREPARE_PHASE, value); just != nil {
					b.w.r.Probe("byz_stale_justification")
				}
			}
			if just == nil {
				just = b.justify(k, round, gpbft.PREPARE_PHASE, value)
			}
			if just == nil {
				return nil
			}
		}
	case gpbft.DECIDE_PHASE:
		if value.IsZero() {
			return nil
		}
		round = 0
		for r := uint64(0); r <= b.maxRound[k]+1 && just == nil; r++ {
			just = b.justify(k, r, gpbft.COMMIT_PHASE, value)
		}
		if just == nil {
			return nil
		}
	}
	mb := &gpbft.MessageBuilder{NetworkName: b.w.nn, PowerTable: info.Table,
		Payload:       gpbft.Payload{Instance: k, Round: round, Phase: phase, SupplementalData: info.Supp, Value: value},
		Justification: just}
	if phase == gpbft.CONVERGE_PHASE {
		mb.BeaconForTicket = info.Beacon
	}
	if b.w.c.Chance(40) {
		// validly signed vote over foreign commitments (the justification stays genuine):
		// invalid, because vote and justification disagree on the supplemental data
		mb.Payload.SupplementalData.Commitments[31] ^= 0xa5
		b.w.r.Probe("byz_foreign_commitments")
	}
	sb, err := mb.PrepareSigningInputs(m.ID)
	if err != nil {
		return nil
	}
	sig := b.sign(m, sb.PayloadToSign)
	var vrf []byte
	if sb.VRFToSign != nil {
		vrf = b.sign(m, sb.VRFToSign)
	}
	return sb.Build(sig, vrf)
}

func (b *Byz) pickValue(k uint64, phase gpbft.Phase, allowBottom bool) *gpbft.ECChain {
	c := b.w.c
	info := b.w.instance(k)
	if allowBottom && c.Chance(250) {
		return nil
	}
	known := b.chains[k]
	if len(known) == 0 || info == nil || info.Base == nil {
		return nil
	}
	if c.Chance(60) {
		// forged chain on the right base
		b.w.r.Probe("byz_forged_chain")
		ch := &gpbft.ECChain{TipSets: []*gpbft.TipSet{info.Base, mkTipset(info.Base.Epoch+1+int64(c.Intn(3)), fmt.Sprintf("forged-%d-%d", k, c.Intn(3)))}}
		b.learnChain(k, ch)
		return ch
	}
	if c.Chance(30) {
		b.w.r.Probe("byz_foreign_base")
		return &gpbft.ECChain{TipSets: []*gpbft.TipSet{mkTipset(3, "foreign-base"), mkTipset(4, "foreign-1")}}
	}
	keys := make([]gpbft.ECChainKey, 0, len(known))
	for key := range known {
		keys = append(keys, key)
	}
	sort.Slice(keys, func(i, j int) bool { return string(keys[i][:]) < string(keys[j][:]) })
	return known[keys[c.Intn(len(keys))]]
}

// sendTo delivers a Byzantine message to a chosen subset of honest members.
func (b *Byz) sendTo(from *Member, msg *gpbft.GMessage, pick func(*Member) bool) int {
	n := 0
	for _, to := range b.w.members {
		if to.Role != Honest || !pick(to) {
			continue
		}
		b.w.send(from.Idx, to, msg, true)
		n++
	}
	if n > 0 {
		b.w.byzEverSent = true
		b.w.onWire(from, msg)
		b.w.r.Tracef("t=%d byz %s -> %d honest", b.w.now(), msgStr(msg), n)
		// what the adversary sends it has also "observed"
		b.addSig(msg.Vote.Instance, msg.Vote.Round, msg.Vote.Phase, msg.Vote.Value.Key(), msg.Sender, msg.Signature)
	}
	return n
}

// move performs one adversarial action.
func (b *Byz) move() {
	w, c := b.w, b.w.c
	if len(b.members) == 0 || w.gstReached {
		return
	}
	m := b.members[c.Intn(len(b.members))]
	// instance: one an honest member is in
	var ks []uint64
	seen := map[uint64]bool{}
	for _, h := range w.members {
		if h.Role == Honest && h.part != nil && h.started {
			k := h.part.Progress().ID
			if !seen[k] && w.instance(k) != nil {
				seen[k] = true
				ks = append(ks, k)
			}
		}
	}
	if len(ks) == 0 {
		return
	}
	sort.Slice(ks, func(i, j int) bool { return ks[i] < ks[j] })
	k := ks[c.Intn(len(ks))]
	if c.Chance(50) && w.instance(k+1) != nil {
		k++
	}
	phases := []gpbft.Phase{gpbft.QUALITY_PHASE, gpbft.PREPARE_PHASE, gpbft.COMMIT_PHASE, gpbft.CONVERGE_PHASE, gpbft.DECIDE_PHASE}
	phase := phases[c.Pick([]int{3, 4, 4, 3, 2})]
	round := b.maxRound[k]
	switch c.Intn(6) {
	case 0:
		if round > 0 {
			round--
		}
	case 1:
		round++
	case 2:
		round += uint64(c.Intn(int(w.cfg.Lookahead) + 3))
	}
	if phase == gpbft.QUALITY_PHASE || phase == gpbft.DECIDE_PHASE {
		round = 0
	}
	if phase == gpbft.CONVERGE_PHASE && round == 0 {
		round = 1
	}
	allowBottom := phase == gpbft.PREPARE_PHASE || phase == gpbft.COMMIT_PHASE
	v1 := b.pickValue(k, phase, allowBottom)
	msg1 := b.craft(m, k, round, phase, v1)
	if msg1 == nil {
		w.r.Probe("byz_move_infeasible")
		return
	}
	w.r.Probe("byz_msg_" + phase.String())
	switch w.cfg.ByzStrategy {
	case 1: // split: group A gets v1, group B gets another value
		v2 := b.pickValue(k, phase, allowBottom)
		msg2 := b.craft(m, k, round, phase, v2)
		b.sendTo(m, msg1, func(t *Member) bool { return b.groupA[t.Idx] })
		if msg2 != nil {
			if !v1.Eq(v2) {
				w.r.Fault("byz_equivocation")
			}
			b.sendTo(m, msg2, func(t *Member) bool { return !b.groupA[t.Idx] })
		}
	default:
		equiv := c.Chance(400)
		var msg2 *gpbft.GMessage
		if equiv {
			v2 := b.pickValue(k, phase, allowBottom)
			if !v1.Eq(v2) {
				msg2 = b.craft(m, k, round, phase, v2)
			}
		}
		sel := map[int]bool{}
		for _, t := range w.members {
			if t.Role == Honest && c.Chance(600) {
				sel[t.Idx] = true
			}
		}
		b.sendTo(m, msg1, func(t *Member) bool { return sel[t.Idx] })
		if msg2 != nil {
			w.r.Fault("byz_equivocation")
			b.sendTo(m, msg2, func(t *Member) bool { return !sel[t.Idx] || c.Chance(100) })
		}
	}
	w.r.Fault("byz_message")
}

// campValue returns the value the adversary promotes towards a camp in instance k: the input
// of the first honest member of that camp seen so far.
func (b *Byz) campValue(k uint64, camp int) *gpbft.ECChain {
	info := b.w.instance(k)
	if info == nil {
		return nil
	}
	t := b.campTarget[k]
	if b.w.cfg.ByzStrategy == 5 && info.Base != nil {
		// forger: one fixed chain that no honest member proposes, promoted to everybody
		if t[0] == nil {
			t[0] = &gpbft.ECChain{TipSets: []*gpbft.TipSet{info.Base, mkTipset(info.Base.Epoch+1, fmt.Sprintf("forged-%d-x", k))}}
			t[1] = t[0]
			b.campTarget[k] = t
			b.learnChain(k, t[0])
		}
		return t[camp]
	}
	if t[camp] == nil {
		for _, m := range b.w.members {
			if m.Role == Honest && b.w.cfg.Camp[m.Idx] == camp {
				if in, ok := info.Inputs[m.Idx]; ok {
					t[camp] = in
					break
				}
			}
		}
		b.campTarget[k] = t
	}
	return t[camp]
}

// pursue is the coherent split-brain strategy: in every step of every round the adversary can
// reach, every Byzantine member votes for camp 0's value towards camp 0 and for camp 1's value
// towards camp 1 (and, where a vote for bottom is admissible, optionally for bottom), as soon
// as the needed justification can be assembled from observed signatures.
func (b *Byz) pursue(k uint64) {
	w := b.w
	if b.pursuing || w.instance(k) == nil {
		return
	}
	b.pursuing = true
	defer func() { b.pursuing = false }()
	lo := uint64(0)
	if b.maxRound[k] > 1 {
		lo = b.maxRound[k] - 1
	}
	phases := []gpbft.Phase{gpbft.QUALITY_PHASE, gpbft.CONVERGE_PHASE, gpbft.PREPARE_PHASE, gpbft.COMMIT_PHASE, gpbft.DECIDE_PHASE}
	for r := lo; r <= b.maxRound[k]+1; r++ {
		for _, ph := range phases {
			if (ph == gpbft.QUALITY_PHASE || ph == gpbft.DECIDE_PHASE) && r != 0 {
				continue
			}
			if ph == gpbft.CONVERGE_PHASE && r == 0 {
				continue
			}
			for camp := 0; camp < 2; camp++ {
				v := b.campValue(k, camp)
				if w.cfg.ByzStrategy == 4 && b.flipped[k] && camp == 1 {
					// after somebody decided, push the other camp towards a different value
					v = b.campValue(k, 1)
				}
				if v == nil {
					continue
				}
				for _, m := range b.members {
					cs := campSlot{k, r, ph, m.Idx, camp, false}
					if b.campSent[cs] {
						continue
					}
					msg := b.craft(m, k, r, ph, v)
					if msg == nil {
						continue
					}
					b.campSent[cs] = true
					n := b.sendTo(m, msg, func(t *Member) bool { return w.cfg.Camp[t.Idx] == camp })
					if n > 0 {
						w.r.Fault("byz_message")
						w.r.Probe("byz_camp_" + ph.String())
					}
				}
			}
		}
	}
}

// relabel replays an honest member's signed vote with a different announced chain key on the
// two-stage path (the adversary needs no key for that: the signed bytes are unchanged), and
// supplies the chain matching the new key. A sound validator rejects it.
func (b *Byz) relabel(msg *gpbft.GMessage) {
	w, c := b.w, b.w.c
	if msg.Vote.Value.IsZero() || len(b.members) == 0 {
		return
	}
	k := msg.Vote.Instance
	var alt *gpbft.ECChain
	for i := 0; i < 4 && alt == nil; i++ {
		if v := b.pickValue(k, msg.Vote.Phase, false); v != nil && !v.Eq(msg.Vote.Value) {
			alt = v
		}
	}
	if alt == nil {
		return
	}
	key := alt.Key()
	from := b.members[0]
	n := 0
	for _, to := range w.members {
		if to.Role != Honest || !c.Chance(600) {
			continue
		}
		// the genuine chain is withheld from this victim for a while
		if w.chainAvail == nil {
			w.chainAvail = map[int]map[gpbft.ECChainKey]time.Duration{}
		}
		if w.chainAvail[to.Idx] == nil {
			w.chainAvail[to.Idx] = map[gpbft.ECChainKey]time.Duration{}
		}
		gk := msg.Vote.Value.Key()
		if _, known := w.chainAvail[to.Idx][gk]; !known {
			w.chainAvail[to.Idx][gk] = w.now() + c.Dur(2*w.cfg.Delta, 10*w.cfg.Delta)
		}
		dl := &delivery{from: from.Idx, to: to, msg: msg, byz: true, key: &key, chain: alt}
		ev := w.s.At(w.now()+c.Dur(0, w.cfg.Delta), func() { w.deliver(dl) })
		ev.Tag, ev.Actor = tagDeliver|0x100, to.Idx
		n++
	}
	if n > 0 {
		w.r.Fault("byz_relabel")
		w.r.Tracef("t=%d byz relabels %s as %s -> %d honest", w.now(), msgStr(msg), chainStr(alt), n)
	}
}

// react is called after every honest broadcast.
func (b *Byz) react(msg *gpbft.GMessage) {
	w := b.w
	if len(b.members) == 0 {
		return
	}
	if w.cfg.PartialPath && w.c.Chance(150) {
		b.relabel(msg)
	}
	if w.cfg.ByzStrategy >= 3 {
		if msg.Vote.Phase == gpbft.DECIDE_PHASE {
			b.flipped[msg.Vote.Instance] = true
		}
		b.pursue(msg.Vote.Instance)
		if w.cfg.ByzRate == 0 {
			return
		}
	}
	if w.c.Chance(w.cfg.ByzRate) {
		d := w.c.Dur(0, w.cfg.Delta)
		ev := w.s.After(d, func() { b.move() })
		ev.Tag = tagOther
	}
}
