package gpbftsim

import (
	"fmt"

	"github.com/filecoin-project/go-f3/certs"
	"github.com/filecoin-project/go-f3/gpbft"
)

type wireKey struct {
	K      uint64
	Sender gpbft.ActorID
	Round  uint64
	Phase  gpbft.Phase
	Value  string
}

// onWire records every message any member (honest or Byzantine) put on the simulated wire.
func (w *World) onWire(from *Member, msg *gpbft.GMessage) {
	if w.wire == nil {
		w.wire = map[wireKey]struct{}{}
	}
	w.wire[wireKey{msg.Vote.Instance, msg.Sender, msg.Vote.Round, msg.Vote.Phase, chainID(msg.Vote.Value)}] = struct{}{}
}

// The oracles use comparisons of their own (never the repository's Eq/Equal/HasBase/IsZero/Key
// helpers, which a change under test may have altered).

func isBottom(c *gpbft.ECChain) bool { return c == nil || len(c.TipSets) == 0 }

func suppEq(a, b *gpbft.SupplementalData) bool {
	return a.PowerTable == b.PowerTable && a.Commitments == b.Commitments
}

func tipsetEq(x, y *gpbft.TipSet) bool {
	if x == nil || y == nil {
		return x == y
	}
	return x.Epoch == y.Epoch && string(x.Key) == string(y.Key) && x.PowerTable == y.PowerTable && x.Commitments == y.Commitments
}

func hasBase(c *gpbft.ECChain, b *gpbft.TipSet) bool {
	return !isBottom(c) && b != nil && tipsetEq(c.TipSets[0], b)
}

// chainID is an injective identifier of a chain for the oracles' own maps.
func chainID(c *gpbft.ECChain) string {
	if isBottom(c) {
		return ""
	}
	var b []byte
	for _, t := range c.TipSets {
		b = fmt.Appendf(b, "%d|%d:%s|%s|%x;", t.Epoch, len(t.Key), t.Key, t.PowerTable.String(), t.Commitments)
	}
	return string(b)
}

func tipsetsEqual(a, b *gpbft.ECChain) bool {
	if isBottom(a) || isBottom(b) {
		return isBottom(a) == isBottom(b)
	}
	if len(a.TipSets) != len(b.TipSets) {
		return false
	}
	for i := range a.TipSets {
		x, y := a.TipSets[i], b.TipSets[i]
		if x.Epoch != y.Epoch || string(x.Key) != string(y.Key) || x.PowerTable != y.PowerTable || x.Commitments != y.Commitments {
			return false
		}
	}
	return true
}

func isPrefixOf(p, c *gpbft.ECChain) bool {
	if isBottom(p) || isBottom(c) || len(p.TipSets) > len(c.TipSets) {
		return false
	}
	return tipsetsEqual(p, &gpbft.ECChain{TipSets: c.TipSets[:len(p.TipSets)]})
}

// onDecision evaluates C01, C02 and C03 at every decision reported by an honest member.
func (w *World) onDecision(m *Member, d *gpbft.Justification) {
	k := d.Vote.Instance
	info := w.instance(k)
	w.r.Tracef("t=%d decide p=%d k=%d v=%s", w.now(), m.ID, k, chainStr(d.Vote.Value))
	w.r.Sigf("d%d:%d:%x|", m.ID, k, keyPrefix(d.Vote.Value))
	w.r.Probe("decision")
	if info == nil {
		w.fail("C03", "decision_unknown_instance", "instance", "member %d decided unknown instance %d", m.ID, k)
		return
	}
	prog := m.part.Progress()
	if prog.ID != k {
		w.fail("C03", "decision_wrong_instance", "instance", "member %d in instance %d reported a decision for %d", m.ID, prog.ID, k)
	}
	// ---- C01 agreement
	if prev, ok := m.decisions[k]; ok && !tipsetsEqual(prev.Vote.Value, d.Vote.Value) {
		w.fail("C01", "self_disagreement", "restart", "member %d decided %s and later %s in instance %d", m.ID, chainStr(prev.Vote.Value), chainStr(d.Vote.Value), k)
	}
	if info.Decided == nil {
		info.Decided = d.Vote.Value
		info.DecidedBy = m.Idx
	} else if !tipsetsEqual(info.Decided, d.Vote.Value) {
		w.fail("C01", "disagreement", "decide", "instance %d: member %d decided %s but member %d decided %s", k,
			w.members[info.DecidedBy].ID, chainStr(info.Decided), m.ID, chainStr(d.Vote.Value))
	}
	// ---- C02 validity
	v := d.Vote.Value
	if isBottom(v) {
		w.fail("C02", "decided_bottom", "bottom", "member %d decided bottom in instance %d", m.ID, k)
	} else {
		in := m.inputs[k]
		if in == nil || !hasBase(v, in.TipSets[0]) {
			w.fail("C02", "wrong_base", "base", "member %d decided %s whose base differs from its input base", m.ID, chainStr(v))
		}
		ok := false
		for _, hin := range info.AllInputs {
			if isPrefixOf(v, hin) {
				ok = true
				break
			}
		}
		if !ok {
			w.fail("C02", "not_prefix_of_honest_input", "prefix", "instance %d: member %d decided %s which is not a prefix of any honest input", k, m.ID, chainStr(v))
		}
		if w.cfg.Mode == ModeGoodCase {
			if !tipsetsEqual(v, in) {
				w.fail("C02", "good_case_not_input", "goodcase", "good case: member %d decided %s, common input was %s", m.ID, chainStr(v), chainStr(in))
			}
			if prog.Round != 0 {
				w.r.Probe("good_case_round_gt_0")
			}
		}
		if v.Len() > 1 {
			w.r.Probe("decided_non_base")
		}
		if in != nil && !tipsetsEqual(v, in) && !isPrefixOf(v, in) {
			w.r.Probe("decided_foreign_to_own_input")
		}
	}
	// ---- C03 verifiable proof
	w.checkProof(m, info, d)
}

func (w *World) checkProof(m *Member, info *InstanceInfo, d *gpbft.Justification) {
	k := info.K
	if d.Vote.Phase != gpbft.DECIDE_PHASE || d.Vote.Round != 0 {
		w.fail("C03", "decision_wrong_step", "step", "member %d decision has round %d phase %s", m.ID, d.Vote.Round, d.Vote.Phase)
		return
	}
	if !suppEq(&d.Vote.SupplementalData, &info.Supp) {
		w.fail("C03", "decision_wrong_supplement", "supp", "member %d decision carries foreign supplemental data", m.ID)
		return
	}
	var power int64
	var idxs []int
	seen := map[uint64]bool{}
	err := d.Signers.ForEach(func(i uint64) error {
		if seen[i] {
			return fmt.Errorf("duplicate signer %d", i)
		}
		seen[i] = true
		if i >= uint64(len(info.Order)) {
			return fmt.Errorf("signer index %d outside table of %d", i, len(info.Order))
		}
		id := info.Order[i]
		sp := info.Scaled[id]
		if sp <= 0 {
			return fmt.Errorf("signer %d (index %d) has zero scaled power", id, i)
		}
		if _, ok := w.wire[wireKey{k, id, 0, gpbft.DECIDE_PHASE, chainID(d.Vote.Value)}]; !ok {
			return fmt.Errorf("signer %d never sent DECIDE for this value", id)
		}
		power += sp
		idxs = append(idxs, int(i))
		return nil
	})
	if err != nil {
		w.fail("C03", "decision_bad_signers", "signers", "member %d instance %d: %v", m.ID, k, err)
		return
	}
	if !isStrong(power, info.T) {
		w.fail("C03", "decision_no_strong_quorum", "quorum", "member %d instance %d: signers hold %d of %d", m.ID, k, power, info.T)
		return
	}
	payload := d.Vote.MarshalForSigning(w.nn)
	if err := info.Agg.VerifyAggregate(idxs, payload, d.Signature); err != nil {
		w.fail("C03", "decision_bad_aggregate", "aggregate", "member %d instance %d: aggregate does not verify: %v", m.ID, k, err)
		return
	}
	if power-minScaled(info, idxs) >= strongThreshold(info.T) {
		w.r.Probe("decision_quorum_not_minimal")
	}
	// certificate
	diff := certs.MakePowerTableDiff(w.tables[k], w.tables[k+1])
	cert, err := certs.NewFinalityCertificate(diff, d)
	if err != nil {
		w.fail("C03", "cert_construction_failed", "newcert", "member %d instance %d: %v", m.ID, k, err)
		return
	}
	other := append(gpbft.PowerEntries(nil), w.tables[k]...)
	var base *gpbft.TipSet
	if info.Base != nil {
		base = info.Base
	}
	next, _, newTable, err := certs.ValidateFinalityCertificates(w.sig, w.nn, other, k, base, cert)
	if err != nil {
		w.fail("C03", "cert_rejected", "validate", "member %d instance %d: certificate rejected: %v", m.ID, k, err)
		return
	}
	if next != k+1 || !newTable.Equal(w.tables[k+1]) {
		w.fail("C03", "cert_wrong_result", "validate", "member %d instance %d: validation returned next=%d", m.ID, k, next)
	}
	if len(diff) > 0 {
		w.r.Probe("cert_with_nonempty_delta")
	}
}

func minScaled(info *InstanceInfo, idxs []int) int64 {
	var min int64 = 1 << 40
	for _, i := range idxs {
		if p := info.Scaled[info.Order[i]]; p < min {
			min = p
		}
	}
	return min
}

// checkValidationSample is the hook for the validator oracles (C05, C13).
func (w *World) checkValidationSample(to *Member, dl *delivery, msg *gpbft.GMessage, err error) {
	if w.vo != nil {
		w.vo.sample(to, dl, msg, err)
	}
}
