// Package gpbftsim (SIM-A) runs N real gpbft.Participant state machines, Byzantine actors and a
// simulated network/clock inside one process. Every choice comes from the kernel.Chooser.
package gpbftsim

import (
	"context"
	"fmt"
	"math/big"
	"sort"
	"time"

	"github.com/filecoin-project/go-f3/certs"
	"github.com/filecoin-project/go-f3/gpbft"
	"github.com/filecoin-project/go-f3/pmsg"
	"github.com/filecoin-project/go-f3/sim/signing"
	"github.com/filecoin-project/go-f3/zz_verif/kernel"
)

type Role int

const (
	Honest Role = iota
	Byzantine
	Silent // crash-silent from the start; counted against the faulty budget
)

func (r Role) String() string { return [...]string{"honest", "byz", "silent"}[r] }

type Mode int

const (
	ModeSafety   Mode = iota // drops, partitions, anything goes
	ModeLiveness             // GST mode (C06)
	ModeGoodCase             // C02 second sentence
)

// Config is the swarm draw of one run.
type Config struct {
	Mode      Mode
	N         int
	Roles     []Role
	Powers    [][]int64 // per table index (K+1 tables), per member; 0 = not in table
	K         int       // consecutive instances
	Delta     time.Duration
	BackOff   float64
	QualMulti float64
	Lookahead uint64
	RebcastImmediatelyAfter uint64
	RebcastBase, RebcastMax time.Duration
	CommitteeLookback uint64
	CacheInstances, CacheMsgs int

	// network
	BaseLatency  time.Duration
	Jitter       time.Duration
	DropPm       int // permille per delivery (safety only)
	DupPm        int
	LongDelayPm  int
	LongDelayMax time.Duration
	SelfDelay    bool
	Partition    bool
	Holds        bool
	ClockSkew    bool
	StartStagger time.Duration
	AlarmLatePm  int
	AlarmLateMax time.Duration
	CatchUp      bool
	Restarts     bool
	WireCodec    bool
	PartialPath  bool // deliveries take the node's two-stage (partial message + chain exchange) path

	// camps: honest members are split into two camps (used for inputs, link policies and the
	// split-brain adversary)
	Camp        []int
	CampInputs  bool
	Boundary    bool
	LinkPolicy  [][]uint8 // [from][to]: 0 normal, 1 slow, 2 drop (slow when loss is not allowed)
	PolicyMask  uint8     // bit per phase the policy applies to
	PolicySlow  time.Duration

	// byzantine
	ByzStrategy int // 0 random 1 split (random values) 2 random+withhold 3 camps (coherent split-brain) 4 camps+flip 5 forger (one forged chain promoted to everybody)
	ByzRate     int // permille chance of a reaction per honest broadcast
	ByzTicks    int

	GST        time.Duration // liveness: time of stabilisation
	MaxSteps   int
	MaxRounds  uint64
	MaxChain   int
	// ExactTwoThirds: liveness run in which the honest members hold exactly 2/3 of a scaled total
	// divisible by three.
	ExactTwoThirds bool
	// OverLong: in instance 0 member OverLongMember is handed an EC chain of more than 128 tipsets.
	OverLong       bool
	OverLongMember int
	// Deviant is the index of an honest member that enters instance 0 with a base differing from
	// everybody else's (-1: none); DeviantKind says how (0 commitments, 1 power-table CID, 2 key).
	// Such a member can never decide: every decision must start at the decider's own base.
	Deviant     int
	DeviantKind int
	Branches   int
}

type Member struct {
	leftQualityBySkip map[uint64]bool // instances whose QUALITY phase the member left by skipping to a later round
	effectiveInput map[uint64]*gpbft.ECChain // what the participant proposes when the EC chain handed over was over-long
	deviant bool // entered instance 0 with a base nobody else has
	Idx  int
	ID   gpbft.ActorID
	Pub  gpbft.PubKey
	Role Role

	w    *World
	part *gpbft.Participant
	host *Host

	alarm       *kernel.Event
	anchorG, anchorL time.Duration // piecewise-linear clock: local = anchorL + (g-anchorG)*rateNum/1000
	rateNum     int64
	alarmAt     time.Time
	heldUntil   time.Duration
	started     bool
	done        bool
	incarnation int

	// own broadcast log: instance -> (round,phase) -> message (what the WAL would hold)
	sent map[uint64]map[slot]*gpbft.GMessage
	// decisions reported (by any incarnation)
	decisions map[uint64]*gpbft.Justification
	// base known for instance k (head of decision k-1, own or caught up)
	inputs map[uint64]*gpbft.ECChain

	disc *discipline
}

type slot struct {
	Round uint64
	Phase gpbft.Phase
}

// InstanceInfo holds what is common knowledge about instance k.
type InstanceInfo struct {
	K        uint64
	Table    *gpbft.PowerTable // real table object handed to participants (a copy each)
	Entries  gpbft.PowerEntries
	Scaled   map[gpbft.ActorID]int64 // harness-computed scaled power (independent arithmetic)
	Order    []gpbft.ActorID         // harness-computed canonical order (power desc, id asc)
	T        int64                   // sum of scaled powers
	Beacon   []byte
	Supp     gpbft.SupplementalData
	Agg      gpbft.Aggregate
	Base     *gpbft.TipSet
	Tree     [][]*gpbft.TipSet // branches; branch[b][d] tipset at depth d+1 above base
	Inputs   map[int]*gpbft.ECChain // per honest member (current incarnation)
	AllInputs []*gpbft.ECChain      // every chain an honest member ever proposed in this instance (restarts may redraw)
	Decided  *gpbft.ECChain         // first honest decision seen
	DecidedBy int
	treeBuilt bool
}

type World struct {
	c    *kernel.Chooser
	r    *kernel.Recorder
	s    kernel.Sched
	prop string
	tier string
	cfg  Config
	sig  *signing.FakeBackend
	nn   gpbft.NetworkName
	t0   time.Time

	members []*Member
	inst    []*InstanceInfo
	tables  []gpbft.PowerEntries // K+1 tables

	byz *Byz

	partition     map[[2]int]bool
	partitionEnds time.Duration
	gstReached    bool
	byzEverSent   bool
	roundAtGST    map[uint64]uint64 // per instance

	viol *kernel.Violation
	ctx  context.Context
	wire map[wireKey]struct{}
	incompat map[[2]uint64]int
	pmm        *pmsg.PartialMessageManager
	chainAvail map[int]map[gpbft.ECChainKey]time.Duration
	vo   *validatorOracle
	otherViol  map[string]int // violations of properties other than the one under check, by "prop:kind"
	verifyHook func() // one-shot hook run inside the next Verify call (seam for interleaved validations)
}

func (w *World) fail(prop, kind, key, format string, args ...any) {
	if w.viol != nil {
		return
	}
	if prop != w.prop {
		// Only the property under check is decided by this run.
		w.r.Probe("other_property_violation_" + prop + "_" + kind)
		if w.otherViol == nil {
			w.otherViol = map[string]int{}
		}
		w.otherViol[prop+":"+kind]++
		return
	}
	key = kind + ":" + key
	if w.r.KnownFinding(prop, key) {
		return
	}
	w.viol = &kernel.Violation{Prop: prop, Kind: kind, Key: key, Detail: fmt.Sprintf(format, args...)}
	w.r.Tracef("VIOLATION %s", w.viol.String())
}

// strongThreshold = ceil(2T/3) by exact integer arithmetic, independent of gpbft.
func strongThreshold(T int64) int64 {
	b := new(big.Int).Mul(big.NewInt(T), big.NewInt(2))
	q, m := new(big.Int).DivMod(b, big.NewInt(3), new(big.Int))
	if m.Sign() != 0 {
		q.Add(q, big.NewInt(1))
	}
	return q.Int64()
}

func isStrong(part, T int64) bool { return 3*part >= 2*T }

func scaledPowers(entries gpbft.PowerEntries) (map[gpbft.ActorID]int64, int64, []gpbft.ActorID) {
	total := new(big.Int)
	for _, e := range entries {
		total.Add(total, e.Power.Int)
	}
	res := map[gpbft.ActorID]int64{}
	var T int64
	for _, e := range entries {
		x := new(big.Int).Mul(e.Power.Int, big.NewInt(65535))
		x.Div(x, total)
		res[e.ID] = x.Int64()
		T += x.Int64()
	}
	sorted := append(gpbft.PowerEntries(nil), entries...)
	sort.SliceStable(sorted, func(i, j int) bool {
		c := sorted[i].Power.Int.Cmp(sorted[j].Power.Int)
		if c != 0 {
			return c > 0
		}
		return sorted[i].ID < sorted[j].ID
	})
	order := make([]gpbft.ActorID, len(sorted))
	for i, e := range sorted {
		order[i] = e.ID
	}
	return res, T, order
}

func (w *World) now() time.Duration { return w.s.Now() }

func (w *World) memberByID(id gpbft.ActorID) *Member {
	i := int(id) - 1
	if i < 0 || i >= len(w.members) {
		return nil
	}
	return w.members[i]
}

// buildTables creates K+1 power tables from cfg.Powers.
func (w *World) buildTables() {
	for k := 0; k <= w.cfg.K; k++ {
		var entries gpbft.PowerEntries
		for i, m := range w.members {
			p := w.cfg.Powers[k][i]
			if p <= 0 {
				continue
			}
			entries = append(entries, gpbft.PowerEntry{ID: m.ID, Power: gpbft.NewStoragePower(p), PubKey: m.Pub})
		}
		// canonical order for CID purposes
		sort.SliceStable(entries, func(i, j int) bool {
			c := entries[i].Power.Int.Cmp(entries[j].Power.Int)
			if c != 0 {
				return c > 0
			}
			return entries[i].ID < entries[j].ID
		})
		w.tables = append(w.tables, entries)
	}
	for k := 0; k < w.cfg.K; k++ {
		pt := gpbft.NewPowerTable()
		if err := pt.Add(w.tables[k]...); err != nil {
			kernel.Infra("power table: %v", err)
		}
		scaled, T, order := scaledPowers(w.tables[k])
		nextCid, err := certs.MakePowerTableCID(w.tables[k+1])
		if err != nil {
			kernel.Infra("pt cid: %v", err)
		}
		agg, err := w.sig.Aggregate(pt.Entries.PublicKeys())
		if err != nil {
			kernel.Infra("aggregate: %v", err)
		}
		info := &InstanceInfo{K: uint64(k), Table: pt, Entries: w.tables[k], Scaled: scaled, T: T, Order: order,
			Beacon: []byte(fmt.Sprintf("beacon-%d", k)), Supp: gpbft.SupplementalData{PowerTable: nextCid}, Agg: agg,
			Inputs: map[int]*gpbft.ECChain{}}
		info.Supp.Commitments[0] = byte(k + 1)
		w.inst = append(w.inst, info)
	}
}

func (w *World) instance(k uint64) *InstanceInfo {
	if k >= uint64(len(w.inst)) {
		return nil
	}
	return w.inst[k]
}

func ptCid(s string) []byte { return []byte(s) }

func mkTipset(epoch int64, key string) *gpbft.TipSet {
	return &gpbft.TipSet{Epoch: epoch, Key: []byte(key), PowerTable: gpbft.MakeCid([]byte("pt@" + key))}
}

// buildTree lazily creates the EC tipset tree for instance k above base.
func (w *World) buildTree(info *InstanceInfo, base *gpbft.TipSet) {
	if info.treeBuilt {
		return
	}
	info.treeBuilt = true
	info.Base = base
	c := w.c
	nb := 1 + c.Intn(w.cfg.Branches)
	if w.cfg.CampInputs && nb < 2 {
		nb = 2
	}
	maxLen := w.cfg.MaxChain
	for b := 0; b < nb; b++ {
		var branch []*gpbft.TipSet
		forkDepth := 0
		parent := 0
		if b > 0 {
			parent = c.Intn(b)
			forkDepth = c.Intn(len(info.Tree[parent]) + 1)
			branch = append(branch, info.Tree[parent][:forkDepth]...)
		}
		l := c.Intn(maxLen + 1)
		if b > 0 && l == 0 && forkDepth == len(info.Tree[parent]) {
			l = 1
		}
		epoch := base.Epoch
		if len(branch) > 0 {
			epoch = branch[len(branch)-1].Epoch
		}
		for d := 0; d < l && len(branch) < gpbft.ChainMaxLen-1; d++ {
			epoch += 1 + int64(c.Intn(2)*c.Intn(2)) // occasional null round
			branch = append(branch, mkTipset(epoch, fmt.Sprintf("k%d-b%d-d%d", info.K, b, len(branch)+1)))
		}
		info.Tree = append(info.Tree, branch)
	}
}

// inputFor returns (and lazily draws) the input chain of member m for instance k.
func (w *World) inputFor(m *Member, info *InstanceInfo) *gpbft.ECChain {
	if ch, ok := info.Inputs[m.Idx]; ok {
		return ch
	}
	var b, l int
	if w.cfg.Mode == ModeGoodCase {
		b, l = 0, len(info.Tree[0])
	} else if w.cfg.CampInputs && len(info.Tree) >= 2 {
		b = w.cfg.Camp[m.Idx] % len(info.Tree)
		l = len(info.Tree[b])
		if w.c.Chance(100) {
			l = w.c.Intn(l + 1)
		}
	} else {
		b = w.c.Intn(len(info.Tree))
		// bias towards full branch
		if w.c.Chance(600) {
			l = len(info.Tree[b])
		} else {
			l = w.c.Intn(len(info.Tree[b]) + 1)
		}
	}
	ch := &gpbft.ECChain{TipSets: append([]*gpbft.TipSet{info.Base}, info.Tree[b][:l]...)}
	if w.cfg.OverLong && info.K == 0 && m.Idx == w.cfg.OverLongMember {
		// the EC chain handed over is longer than a proposal may be: the participant has to cut it
		// down to the maximum length itself (what it then proposes is the prefix of 128 tipsets)
		ts := append([]*gpbft.TipSet(nil), ch.TipSets...)
		epoch := ts[len(ts)-1].Epoch
		for len(ts) < gpbft.ChainMaxLen+1+w.c.Intn(40) {
			epoch++
			ts = append(ts, mkTipset(epoch, fmt.Sprintf("k%d-long-%d", info.K, len(ts))))
		}
		w.r.Fault("over_long_ec_chain")
		full := &gpbft.ECChain{TipSets: ts}
		cut := &gpbft.ECChain{TipSets: ts[:gpbft.ChainMaxLen]}
		info.Inputs[m.Idx] = full
		info.AllInputs = append(info.AllInputs, cut)
		m.effectiveInput = map[uint64]*gpbft.ECChain{info.K: cut}
		return full
	}
	info.Inputs[m.Idx] = ch
	info.AllInputs = append(info.AllInputs, ch)
	return ch
}

func chainStr(c *gpbft.ECChain) string {
	if c.IsZero() {
		return "_"
	}
	s := ""
	for i, ts := range c.TipSets {
		if i > 0 {
			s += ","
		}
		s += string(ts.Key)
	}
	if len(s) > 80 {
		k := c.Key()
		s = fmt.Sprintf("%s..(%d)#%x", s[:40], c.Len(), k[:4])
	}
	return s
}
