package gpbftsim

import (
	"bytes"
	"errors"
	"fmt"
	"os"
	"path/filepath"
	"runtime"

	"github.com/filecoin-project/go-bitfield"
	"github.com/filecoin-project/go-f3/gpbft"
	"github.com/filecoin-project/go-f3/pmsg"
	"github.com/filecoin-project/go-f3/zz_verif/coop"
	"github.com/filecoin-project/go-f3/zz_verif/kernel"
)

// validatorOracle implements the C05 and C13 checks on sampled deliveries and on forged
// variants derived from them. The reference validator below is written from the property
// text; only implications are required (accept => valid, valid => not branded invalid,
// valid and relevant => accept), plus history independence against a fresh validator.
type validatorOracle struct {
	w      *World
	pmm    *pmsg.PartialMessageManager
	nested *gpbft.GMessage // message that was validated nested inside the current delivery's validation
	recent []*gpbft.GMessage // last few sampled messages (material for concurrent validation batches)
}

// beforeValidate may arm the verifier seam so that a second validation (of a corrupted twin)
// runs in the middle of the delivery's own validation: the deterministic counterpart of two
// goroutines validating concurrently.
func (vo *validatorOracle) beforeValidate(to *Member, msg *gpbft.GMessage) {
	w := vo.w
	if w.prop != "C05" || len(msg.Signature) == 0 || !w.c.Chance(80) {
		return
	}
	twin := copyMsg(msg)
	twin.Signature[w.c.Intn(len(twin.Signature))] ^= 0x20
	w.verifyHook = func() {
		w.r.Fault("interleaved_validation")
		_, _ = to.part.ValidateMessage(w.ctx, cloneOrSame(twin))
		vo.nested = twin
	}
}

func newValidatorOracle(w *World) *validatorOracle {
	return &validatorOracle{w: w, pmm: new(pmsg.PartialMessageManager)}
}

// ---- reference validator -----------------------------------------------------------------

func refChainWellFormed(c *gpbft.ECChain) bool {
	if isBottom(c) {
		return true
	}
	if len(c.TipSets) > gpbft.ChainMaxLen {
		return false
	}
	last := int64(-1)
	for _, ts := range c.TipSets {
		if ts == nil || len(ts.Key) == 0 || len(ts.Key) > gpbft.TipsetKeyMaxLen || !ts.PowerTable.Defined() || ts.PowerTable.ByteLen() > gpbft.CidMaxLen {
			return false
		}
		if ts.Epoch <= last {
			return false
		}
		last = ts.Epoch
	}
	return true
}

// refValid decides protocol validity of m from the property text. known=false when the
// committee of the instance is not available (then nothing is required).
func (vo *validatorOracle) refValid(m *gpbft.GMessage) (valid, known bool, why string) {
	w := vo.w
	if m == nil {
		return false, true, "nil"
	}
	info := w.instance(m.Vote.Instance)
	if info == nil {
		return false, false, "no committee"
	}
	sp := info.Scaled[m.Sender]
	idx, inTable := info.Table.Lookup[m.Sender]
	if !inTable || sp <= 0 {
		return false, true, "sender without power"
	}
	pub := info.Table.Entries[idx].PubKey
	v := m.Vote.Value
	if !refChainWellFormed(v) {
		return false, true, "malformed value"
	}
	bottom := isBottom(v)
	switch m.Vote.Phase {
	case gpbft.QUALITY_PHASE:
		if m.Vote.Round != 0 || bottom {
			return false, true, "quality constraints"
		}
	case gpbft.CONVERGE_PHASE:
		if m.Vote.Round == 0 || bottom {
			return false, true, "converge constraints"
		}
		if !gpbft.VerifyTicket(w.nn, info.Beacon, m.Vote.Instance, m.Vote.Round, pub, w.sig, m.Ticket) {
			return false, true, "ticket"
		}
	case gpbft.DECIDE_PHASE:
		if m.Vote.Round != 0 || bottom {
			return false, true, "decide constraints"
		}
	case gpbft.PREPARE_PHASE, gpbft.COMMIT_PHASE:
	default:
		return false, true, "phase"
	}
	if w.sig.Verify(pub, m.Vote.MarshalForSigning(w.nn), m.Signature) != nil {
		return false, true, "signature"
	}
	needs := !(m.Vote.Phase == gpbft.QUALITY_PHASE ||
		(m.Vote.Phase == gpbft.PREPARE_PHASE && m.Vote.Round == 0) ||
		(m.Vote.Phase == gpbft.COMMIT_PHASE && bottom))
	j := m.Justification
	if !needs {
		if j != nil {
			return false, true, "unexpected justification"
		}
		return true, true, ""
	}
	if j == nil {
		return false, true, "missing justification"
	}
	if j.Vote.Instance != m.Vote.Instance || !suppEq(&j.Vote.SupplementalData, &m.Vote.SupplementalData) {
		return false, true, "justification instance/supplement"
	}
	if !refChainWellFormed(j.Vote.Value) {
		return false, true, "justification value malformed"
	}
	// prescribed step, round and value
	ok := false
	switch m.Vote.Phase {
	case gpbft.CONVERGE_PHASE, gpbft.PREPARE_PHASE:
		switch j.Vote.Phase {
		case gpbft.COMMIT_PHASE:
			ok = j.Vote.Round == m.Vote.Round-1 && isBottom(j.Vote.Value)
		case gpbft.PREPARE_PHASE:
			ok = j.Vote.Round == m.Vote.Round-1 && tipsetsEqual(j.Vote.Value, v)
		}
	case gpbft.COMMIT_PHASE:
		ok = j.Vote.Phase == gpbft.PREPARE_PHASE && j.Vote.Round == m.Vote.Round && tipsetsEqual(j.Vote.Value, v)
	case gpbft.DECIDE_PHASE:
		ok = j.Vote.Phase == gpbft.COMMIT_PHASE && tipsetsEqual(j.Vote.Value, v)
	}
	if !ok {
		return false, true, "justification step/round/value"
	}
	// strong quorum of non-zero-power committee members, aggregate verifies
	var power int64
	var idxs []int
	bad := false
	_ = j.Signers.ForEach(func(i uint64) error {
		if i >= uint64(len(info.Table.Entries)) {
			bad = true
			return nil
		}
		p := info.Scaled[info.Table.Entries[i].ID]
		if p <= 0 {
			bad = true
			return nil
		}
		power += p
		idxs = append(idxs, int(i))
		return nil
	})
	if bad {
		return false, true, "justification signer"
	}
	if !isStrong(power, info.T) {
		return false, true, "justification quorum"
	}
	if info.Agg.VerifyAggregate(idxs, j.Vote.MarshalForSigning(w.nn), j.Signature) != nil {
		return false, true, "justification aggregate"
	}
	return true, true, ""
}

// refRelevant is the documented relevance window.
func (vo *validatorOracle) refRelevant(m *gpbft.GMessage, cur gpbft.InstanceProgress) bool {
	k := m.Vote.Instance
	switch {
	case k >= cur.ID+vo.w.cfg.CommitteeLookback:
		return false
	case k > cur.ID:
		return true
	case k+1 == cur.ID:
		return m.Vote.Phase == gpbft.DECIDE_PHASE
	case k == cur.ID:
		if cur.Phase == gpbft.DECIDE_PHASE && m.Vote.Phase != gpbft.DECIDE_PHASE {
			return false
		}
		round := cur.Round
		if cur.Phase == gpbft.INITIAL_PHASE {
			round = 0 // an instance that has not begun is in round 0, whatever round the previous one ended in
		}
		return m.Vote.Phase == gpbft.QUALITY_PHASE || m.Vote.Phase == gpbft.DECIDE_PHASE || m.Vote.Round+1 >= round
	}
	return false
}

// ---- C05 ----------------------------------------------------------------------------------

func (vo *validatorOracle) fresh(to *Member) *gpbft.VerifValidator {
	return gpbft.VerifNewValidator(vo.w.nn, to.host, to.host, to.part.Progress, vo.w.cfg.CommitteeLookback)
}

// judge checks one message against the reference and a fresh validator. cls is the verdict
// class of the long-lived participant.
func (vo *validatorOracle) judge(to *Member, m *gpbft.GMessage, cls string, verr error, what string) {
	w := vo.w
	var pe *gpbft.PanicError
	if errors.As(verr, &pe) {
		w.fail("C05", "validator_panicked", "panic", "validating %s (%s) panicked: %.300s", msgStr(m), what, verr.Error())
		return
	}
	cur := to.part.Progress()
	_, ferr := vo.fresh(to).ValidateMessage(w.ctx, cloneOrSame(m))
	fcls := errClass(ferr)
	if fcls != cls {
		w.fail("C05", "verdict_depends_on_history", cls+"/"+fcls, "%s: participant %d (progress %d/%d/%s) says %q, a validator with an empty cache says %q for %s",
			what, to.ID, cur.ID, cur.Round, cur.Phase, cls, fcls, msgStr(m))
		return
	}
	// the same on the partial path (the form in which messages normally arrive)
	if p := vo.strip(m); p != nil {
		_, werr := to.part.PartiallyValidateMessage(w.ctx, p)
		_, ferr2 := vo.fresh(to).PartiallyValidateMessage(w.ctx, vo.strip(m))
		if errClass(werr) != errClass(ferr2) {
			w.fail("C05", "verdict_depends_on_history", "partial:"+errClass(werr)+"/"+errClass(ferr2), "%s: partial validation by participant %d says %q, a validator with an empty cache says %q for %s",
				what, to.ID, errClass(werr), errClass(ferr2), msgStr(m))
			return
		}
	}
	valid, known, why := vo.refValid(m)
	if !known {
		return
	}
	rel := vo.refRelevant(m, cur)
	switch {
	case cls == "accept" && !valid:
		w.fail("C05", "invalid_message_accepted", why, "%s: participant %d accepted %s although it is not valid (%s)", what, to.ID, msgStr(m), why)
	case valid && cls == "invalid":
		w.fail("C05", "valid_message_branded_invalid", "invalid", "%s: participant %d (progress %d/%d/%s) branded the valid message %s invalid: %v", what, to.ID, cur.ID, cur.Round, cur.Phase, msgStr(m), verr)
	case valid && rel && cls != "accept":
		w.fail("C05", "valid_relevant_message_refused", cls, "%s: participant %d (progress %d/%d/%s) refused the valid, relevant message %s: %v", what, to.ID, cur.ID, cur.Round, cur.Phase, msgStr(m), verr)
	}
	if valid && !rel {
		w.r.Probe("c05_valid_irrelevant")
	}
	if !valid && cls != "accept" {
		w.r.Probe("c05_invalid_refused")
	}
}

// concurrent validates a batch of messages (the delivered one, recent ones, forged variants of
// them; some of them twice) from several tasks at once on the participant's long-lived validator.
// validator.go and the caches are compiled with a yield point before every statement (tools/instr),
// and the seeded cooperative scheduler decides after which statement another task continues: the
// deterministic counterpart of many goroutines calling ValidateMessage. Every verdict must equal
// the one a validator with an empty cache gives for the message on its own.
func (vo *validatorOracle) concurrent(to *Member, msg *gpbft.GMessage) {
	w, c := vo.w, vo.w.c
	type item struct {
		m       *gpbft.GMessage
		what    string
		partial bool
		want    string
		got     string
		task    int
	}
	var items []*item
	add := func(m *gpbft.GMessage, what string) {
		items = append(items, &item{m: m, what: what})
		if c.Chance(350) && vo.strip(m) != nil {
			items = append(items, &item{m: m, what: what + ", partial path", partial: true})
		}
	}
	add(msg, "delivered message")
	for _, r := range vo.recent {
		if r != msg && c.Chance(600) {
			add(r, "recent message")
		}
	}
	for i, n := 0, 1+c.Intn(3); i < n; i++ {
		base := items[c.Intn(len(items))].m
		if x, what := vo.forge(base); x != nil {
			add(x, "forged variant ["+what+"]")
		}
	}
	for i, n := 0, c.Intn(3); i < n; i++ { // the same message from two tasks
		it := *items[c.Intn(len(items))]
		items = append(items, &it)
	}
	if len(items) < 2 {
		return
	}
	for _, it := range items {
		if it.partial {
			_, err := vo.fresh(to).PartiallyValidateMessage(w.ctx, vo.strip(it.m))
			it.want = errClass(err)
		} else {
			_, err := vo.fresh(to).ValidateMessage(w.ctx, cloneOrSame(it.m))
			it.want = errClass(err)
		}
	}
	ntasks := 2 + c.Intn(3)
	sched := coop.New(c.Intn, []int{5, 15, 40}[c.Intn(3)])
	for t := 0; t < ntasks; t++ {
		t := t
		sched.Go(fmt.Sprintf("validator%d", t), func() {
			for i, it := range items {
				if i%ntasks != t {
					continue
				}
				it.task = t
				var err error
				if it.partial {
					_, err = to.part.PartiallyValidateMessage(w.ctx, vo.strip(it.m))
				} else {
					_, err = to.part.ValidateMessage(w.ctx, cloneOrSame(it.m))
				}
				it.got = errClass(err)
				var pe *gpbft.PanicError
				if errors.As(err, &pe) {
					it.got = "panic: " + err.Error()
				}
			}
		})
	}
	if os.Getenv("VERIF_COOP_DEBUG") != "" {
		coop.DebugYield = func(task string) {
			_, file, line, _ := runtime.Caller(2)
			w.r.Tracef("yield %s %s:%d", task, filepath.Base(file), line)
		}
	}
	err := sched.Run(4000)
	w.r.Fault("concurrent_validation_batch")
	w.r.Tracef("concurrent validation: %d items, %d tasks, %d yield points, %d switches, %d lock waits, err=%v", len(items), ntasks, sched.Yields, sched.Switches, sched.Blocks, err)
	if sched.Switches > 0 {
		w.r.Probe("c05_switch_inside_validation")
	}
	if sched.Blocks > 0 {
		w.r.Probe("c05_cache_lock_contended")
	}
	if err != nil {
		w.fail("C05", "concurrent_validation_stuck", "coop", "concurrent validations did not complete: %v", err)
		return
	}
	for _, t := range sched.Tasks() {
		if t.Panic != nil {
			if kernel.IsInfra(t.Panic) {
				panic(t.Panic)
			}
			w.fail("C05", "validator_panicked", "concurrent", "task %s panicked: %v", t.Name, t.Panic)
			return
		}
	}
	cur := to.part.Progress()
	for _, it := range items {
		sg := ""
		if it.m.Justification != nil {
			_ = it.m.Justification.Signers.ForEach(func(i uint64) error { sg += fmt.Sprint(i, ","); return nil })
		}
		w.r.Tracef("  item task=%d partial=%v %s: %s -> %s (alone: %s) signers=%s", it.task, it.partial, it.what, msgStr(it.m), it.got, it.want, sg)
	}
	for _, it := range items {
		if it.got != it.want {
			w.fail("C05", "verdict_depends_on_concurrency", it.got+"/"+it.want, "%s: participant %d (progress %d/%d/%s) validating %d messages from %d tasks says %q, a validator with an empty cache validating it alone says %q for %s",
				it.what, to.ID, cur.ID, cur.Round, cur.Phase, len(items), ntasks, it.got, it.want, msgStr(it.m))
			return
		}
	}
}

func cloneOrSame(m *gpbft.GMessage) *gpbft.GMessage {
	if c := cloneMsg(m); c != nil {
		return c
	}
	return m
}

func copyMsg(m *gpbft.GMessage) *gpbft.GMessage {
	cp := *m
	cp.Signature = append([]byte(nil), m.Signature...)
	cp.Ticket = append([]byte(nil), m.Ticket...)
	if m.Justification != nil {
		j := *m.Justification
		j.Signature = append([]byte(nil), m.Justification.Signature...)
		cp.Justification = &j
	}
	return &cp
}

// forge derives a near-valid variant of an observed message. Returns nil if no variant applies.
func (vo *validatorOracle) forge(m *gpbft.GMessage) (*gpbft.GMessage, string) {
	w, c := vo.w, vo.w.c
	x := copyMsg(m)
	info := w.instance(m.Vote.Instance)
	if info == nil {
		return nil, ""
	}
	// optionally let a Byzantine member be the sender, so that its own signature is genuine
	var byzSender *Member
	if w.byz != nil && len(w.byz.members) > 0 && c.Chance(600) {
		b := w.byz.members[c.Intn(len(w.byz.members))]
		if info.Scaled[b.ID] > 0 {
			byzSender = b
			x.Sender = b.ID
		}
	}
	what := ""
	other := func() *gpbft.ECChain {
		if w.byz != nil {
			if v := w.byz.pickValue(m.Vote.Instance, m.Vote.Phase, false); v != nil {
				return v
			}
		}
		if info.Base != nil {
			return &gpbft.ECChain{TipSets: []*gpbft.TipSet{info.Base, mkTipset(info.Base.Epoch+7, "oracle-other")}}
		}
		return nil
	}
	switch c.Intn(19) {
	case 18:
		// the observed justification is borrowed for a different step of the same value
		if x.Justification == nil || isBottom(x.Vote.Value) {
			return nil, ""
		}
		x.Vote.Phase = []gpbft.Phase{gpbft.DECIDE_PHASE, gpbft.COMMIT_PHASE, gpbft.CONVERGE_PHASE, gpbft.PREPARE_PHASE}[c.Intn(4)]
		if x.Vote.Phase == gpbft.DECIDE_PHASE {
			x.Vote.Round = 0
		}
		what = "justification borrowed for another step"
	case 0:
		x.Sender = gpbft.ActorID(len(w.members) + 5 + c.Intn(3))
		byzSender = nil
		what = "sender outside the committee"
	case 1:
		for _, mm := range w.members {
			if _, in := info.Table.Lookup[mm.ID]; in && info.Scaled[mm.ID] == 0 {
				x.Sender = mm.ID
				byzSender = nil
				what = "committee member with zero scaled power, correctly signed by its own key"
				// validity test message (not an adversary action): signed with that member's key
				if sig, err := w.sig.Sign(w.ctx, mm.Pub, x.Vote.MarshalForSigning(w.nn)); err == nil {
					x.Signature = sig
				}
			}
		}
		if what == "" {
			return nil, ""
		}
	case 2:
		x.Vote.Round += uint64(1 + c.Intn(2))
		what = "round shifted"
	case 3:
		x.Vote.Instance++
		what = "instance shifted"
	case 4:
		x.Vote.Phase = []gpbft.Phase{gpbft.QUALITY_PHASE, gpbft.CONVERGE_PHASE, gpbft.PREPARE_PHASE, gpbft.COMMIT_PHASE, gpbft.DECIDE_PHASE, 9}[c.Intn(6)]
		what = "phase replaced"
	case 5:
		x.Vote.Value = other()
		what = "value replaced"
	case 6:
		x.Vote.Value = &gpbft.ECChain{}
		what = "value replaced by bottom"
	case 7:
		if x.Vote.Value.Len() < 2 {
			return nil, ""
		}
		ts := append([]*gpbft.TipSet(nil), x.Vote.Value.TipSets...)
		bad := *ts[len(ts)-1]
		switch c.Intn(3) {
		case 0:
			bad.Epoch = ts[len(ts)-2].Epoch
		case 1:
			bad.Key = nil
		case 2:
			bad.Key = bytes.Repeat([]byte{1}, gpbft.TipsetKeyMaxLen+1)
		}
		ts[len(ts)-1] = &bad
		x.Vote.Value = &gpbft.ECChain{TipSets: ts}
		what = "malformed chain"
	case 8:
		x.Vote.SupplementalData.Commitments[3] ^= 0x55
		what = "supplemental data of the vote changed"
	case 9:
		if x.Justification == nil {
			return nil, ""
		}
		x.Justification = nil
		what = "justification removed"
	case 10:
		if x.Justification != nil || w.byz == nil {
			return nil, ""
		}
		for _, j := range w.byz.justs[m.Vote.Instance] {
			x.Justification = j
			break
		}
		if x.Justification == nil {
			return nil, ""
		}
		what = "justification added where none is allowed"
	case 11:
		if x.Justification == nil {
			return nil, ""
		}
		x.Justification.Vote.Round++
		what = "justification round changed"
	case 12:
		if x.Justification == nil {
			return nil, ""
		}
		x.Justification.Vote.Value = other()
		what = "justification value changed"
	case 13:
		if x.Justification == nil {
			return nil, ""
		}
		x.Justification.Vote.SupplementalData.Commitments[1] ^= 0x11
		what = "justification supplemental data changed"
	case 14:
		if x.Justification == nil {
			return nil, ""
		}
		// drop one signer
		var idx []uint64
		_ = x.Justification.Signers.ForEach(func(i uint64) error { idx = append(idx, i); return nil })
		if len(idx) < 2 {
			return nil, ""
		}
		drop := c.Intn(len(idx))
		bf := bitfield.New()
		for i, v := range idx {
			if i != drop {
				bf.Set(v)
			}
		}
		x.Justification.Signers = bf
		what = "one signer removed from the justification"
	case 15:
		if x.Justification == nil {
			return nil, ""
		}
		bf, _ := x.Justification.Signers.Copy()
		bf.Set(uint64(len(info.Table.Entries) + c.Intn(3)))
		x.Justification.Signers = bf
		what = "out-of-range signer added"
	case 16:
		if len(x.Signature) == 0 {
			return nil, ""
		}
		x.Signature[c.Intn(len(x.Signature))] ^= 1 << uint(c.Intn(8))
		byzSender = nil
		what = "signature bit flipped"
	case 17:
		if x.Vote.Phase != gpbft.CONVERGE_PHASE || len(x.Ticket) == 0 {
			return nil, ""
		}
		x.Ticket[c.Intn(len(x.Ticket))] ^= 1 << uint(c.Intn(8))
		what = "ticket bit flipped"
		byzSender = nil
	}
	if byzSender != nil {
		// re-sign with the Byzantine sender's own key so that only the intended defect remains
		x.Signature = w.byz.sign(byzSender, x.Vote.MarshalForSigning(w.nn))
		if x.Vote.Phase == gpbft.CONVERGE_PHASE {
			mb := &gpbft.MessageBuilder{NetworkName: w.nn, PowerTable: info.Table, Payload: x.Vote, BeaconForTicket: info.Beacon}
			if sb, err := mb.PrepareSigningInputs(byzSender.ID); err == nil && sb.VRFToSign != nil && what != "ticket bit flipped" {
				x.Ticket = w.byz.sign(byzSender, sb.VRFToSign)
			}
		}
		what += " (re-signed by faulty member " + fmt.Sprint(byzSender.ID) + ")"
	}
	return x, what
}

func (vo *validatorOracle) sample(to *Member, dl *delivery, msg *gpbft.GMessage, err error) {
	w := vo.w
	switch w.prop {
	case "C05":
		if vo.nested != nil {
			// a second validation ran inside this one's signature check (interleaved validations)
			x := vo.nested
			vo.nested = nil
			_, verr := to.part.ValidateMessage(w.ctx, cloneOrSame(x))
			vo.judge(to, x, errClass(verr), verr, "message validated while another validation was in flight")
			if w.viol != nil {
				return
			}
		}
		vo.judge(to, msg, errClass(err), err, "delivered message")
		if len(vo.recent) < 8 {
			vo.recent = append(vo.recent, msg)
		} else {
			vo.recent[w.c.Intn(8)] = msg
		}
		if w.viol == nil && w.c.Chance(50) {
			vo.concurrent(to, msg)
		}
		if w.viol != nil || !w.c.Chance(250) {
			return
		}
		n := 1 + w.c.Intn(3)
		for i := 0; i < n && w.viol == nil; i++ {
			x, what := vo.forge(msg)
			if x == nil {
				continue
			}
			w.r.Fault("forged_variant")
			// warm cache: the valid twin was validated just before; optionally again afterwards
			_, verr := to.part.ValidateMessage(w.ctx, cloneOrSame(x))
			vo.judge(to, x, errClass(verr), verr, "forged variant ["+what+"]")
			if w.c.Chance(300) && w.viol == nil {
				_, _ = to.part.ValidateMessage(w.ctx, cloneOrSame(msg))
				_, verr2 := to.part.ValidateMessage(w.ctx, cloneOrSame(x))
				if errClass(verr2) != errClass(verr) {
					w.fail("C05", "verdict_depends_on_history", "repeat", "forged variant [%s] of %s judged %q first and %q after its valid twin was validated again", what, msgStr(msg), errClass(verr), errClass(verr2))
				}
			}
		}
	case "C13":
		if w.c.Chance(350) {
			vo.twoStage(to, msg)
		}
	}
}

// ---- C13 ----------------------------------------------------------------------------------

// complete fills a stripped message with chain c exactly like the production code does.
func (vo *validatorOracle) complete(p *gpbft.PartialGMessage, c *gpbft.ECChain) {
	p.Vote.Value = c
	pmsg.VerifInferJustificationVoteValue(p)
}

func (vo *validatorOracle) strip(m *gpbft.GMessage) *gpbft.PartialGMessage {
	p, err := vo.pmm.ToPartialGMessage(copyMsg(m))
	if err != nil {
		return nil
	}
	return p
}

func (vo *validatorOracle) twoStage(to *Member, m *gpbft.GMessage) {
	w, c := vo.w, vo.w.c
	info := w.instance(m.Vote.Instance)
	if info == nil {
		return
	}
	orig := m.Vote.Value
	// round trip on valid messages
	if valid, known, _ := vo.refValid(m); known && valid {
		p := vo.strip(m)
		if p == nil {
			w.fail("C13", "strip_failed", "strip", "cannot strip %s", msgStr(m))
			return
		}
		vo.complete(p, orig)
		var a, b bytes.Buffer
		_ = p.GMessage.MarshalCBOR(&a)
		_ = m.MarshalCBOR(&b)
		if !bytes.Equal(a.Bytes(), b.Bytes()) {
			w.fail("C13", "strip_complete_not_identity", "roundtrip", "stripping %s and completing it with its own chain yields a different message", msgStr(m))
			return
		}
		w.r.Probe("c13_roundtrip")
	}
	// optionally start from a forged variant
	base := m
	what := "delivered message"
	if c.Chance(300) {
		if x, wh := vo.forge(m); x != nil {
			base, what = x, "forged variant ["+wh+"]"
		}
	}
	alt := func() *gpbft.ECChain {
		if w.byz != nil {
			for i := 0; i < 4; i++ {
				if v := w.byz.pickValue(m.Vote.Instance, m.Vote.Phase, false); v != nil && !tipsetsEqual(v, base.Vote.Value) {
					return v
				}
			}
		}
		if info.Base != nil {
			return &gpbft.ECChain{TipSets: []*gpbft.TipSet{info.Base, mkTipset(info.Base.Epoch+9, "oracle-alt")}}
		}
		return nil
	}
	// the original arrives first, as it does in real traffic (warms the shared caches)
	if base != m && !isBottom(orig) {
		if p := vo.strip(m); p != nil {
			if pv, err := to.part.PartiallyValidateMessage(w.ctx, p); err == nil {
				vo.complete(p, orig)
				_, _ = to.part.FullyValidateMessage(w.ctx, pv)
			}
		}
	}
	trials := 1 + c.Intn(4)
	for t := 0; t < trials && w.viol == nil; t++ {
		// announced key
		var k gpbft.ECChainKey
		kWhat := "matching key"
		switch c.Pick([]int{5, 2, 3}) {
		case 0:
			k = base.Vote.Value.Key()
		case 1:
			kWhat = "zero key"
		case 2:
			if a := alt(); a != nil {
				k = a.Key()
				kWhat = "key of another chain"
			} else {
				k = base.Vote.Value.Key()
			}
		}
		// completing chain
		var cc *gpbft.ECChain
		cWhat := "original chain"
		switch c.Pick([]int{5, 3, 2}) {
		case 0:
			cc = base.Vote.Value
		case 1:
			cc = alt()
			cWhat = "another chain"
			if kWhat == "key of another chain" && c.Chance(700) {
				// the chain that matches the announced (foreign) key
				for _, v := range w.byz.chains[m.Vote.Instance] {
					if v.Key() == k {
						cc = v
						cWhat = "the chain matching the announced key"
					}
				}
			}
		case 2:
			cc = &gpbft.ECChain{}
			cWhat = "bottom"
		}
		if cc == nil {
			cc = &gpbft.ECChain{}
		}
		p := vo.strip(base)
		if p == nil {
			return
		}
		p.VoteValueKey = k
		// completed message for the one-shot path
		full := vo.strip(base)
		full.VoteValueKey = k
		if p.Justification != nil && c.Chance(250) {
			// a faulty sender controls the wire form: the stripped justification carries a chain
			if tv := alt(); tv != nil {
				jp, jf := *p.Justification, *full.Justification
				jp.Vote.Value, jf.Vote.Value = tv, tv
				p.Justification, full.Justification = &jp, &jf
				cWhat += ", justification value on the wire not empty"
			}
		}
		vo.complete(full, cc)
		oneShot := func() bool {
			_, err := to.part.ValidateMessage(w.ctx, cloneOrSame(full.GMessage))
			return err == nil
		}
		twoStage := func() (bool, string) {
			pv, err := to.part.PartiallyValidateMessage(w.ctx, p)
			if err != nil {
				return false, "partial: " + errClass(err)
			}
			vo.complete(p, cc)
			if _, err := to.part.FullyValidateMessage(w.ctx, pv); err != nil {
				return false, "full: " + errClass(err)
			}
			return true, "accepted"
		}
		var one, two bool
		var how string
		if c.Chance(500) {
			one = oneShot()
			two, how = twoStage()
		} else {
			two, how = twoStage()
			one = oneShot()
		}
		keyOK := k == cc.Key()
		w.r.Fault("two_stage_trial")
		if two {
			w.r.Probe("c13_two_stage_accept")
		}
		if two != (keyOK && one) {
			w.fail("C13", "two_stage_differs_from_one_shot", fmt.Sprintf("two=%v,one=%v,key=%v", two, one, keyOK),
				"%s %s announced with %s and completed with %s: two-stage validation %s, one-shot validation of the completed message accepts=%v, announced key matches the completing chain=%v",
				what, msgStr(base), kWhat, cWhat, how, one, keyOK)
		}
	}
}
