package gpbftsim

import "github.com/filecoin-project/go-f3/gpbft"

// validatorOracle implements the C05 / C13 checks on sampled deliveries (see valoracle_*.go).
type validatorOracle struct {
	w *World
}

func newValidatorOracle(w *World) *validatorOracle { return &validatorOracle{w: w} }

func (vo *validatorOracle) sample(to *Member, dl *delivery, msg *gpbft.GMessage, err error) {}
