package gpbftsim

import (
	"time"

	"github.com/filecoin-project/go-f3/gpbft"
)

// discipline is the per-incarnation reference model of "what this participant has been
// delivered" used by the C07 oracle. It is written from the property text, not from gpbft.go.
type discipline struct {
	m *Member
	w *World

	k       uint64
	active  bool
	input   *gpbft.ECChain
	info    *InstanceInfo
	emitted map[slot]int

	// delivered, first per sender
	quality  map[gpbft.ActorID]*gpbft.ECChain
	prepare  map[uint64]map[gpbft.ActorID]*gpbft.ECChain
	commit   map[uint64]map[gpbft.ActorID]*gpbft.ECChain
	decide   map[gpbft.ActorID]*gpbft.ECChain
	converge map[uint64]map[gpbft.ActorID]cvEntry
	proven   map[string]bool

	ownPrepare     map[uint64]*gpbft.ECChain
	prepareTimeout map[uint64]time.Time
	qualityProposal *gpbft.ECChain // value of round-0 PREPARE

	lastAlarm   time.Time
	inDrain     bool
	qualBefore  int // longest-quorum-prefix length before draining the queue

	// future-instance queue, first per (sender, round, phase)
	queue map[uint64]map[qkey]*gpbft.GMessage
	curRound uint64
}

type qkey struct {
	Sender gpbft.ActorID
	Round  uint64
	Phase  gpbft.Phase
}

type cvEntry struct {
	value *gpbft.ECChain
	rank  float64
}

func newDiscipline(m *Member) *discipline {
	return &discipline{m: m, w: m.w, queue: map[uint64]map[qkey]*gpbft.GMessage{}}
}

func (d *discipline) reset(k uint64, input *gpbft.ECChain, info *InstanceInfo) {
	d.k, d.active, d.input, d.info = k, true, input, info
	d.emitted = map[slot]int{}
	d.quality = map[gpbft.ActorID]*gpbft.ECChain{}
	d.prepare = map[uint64]map[gpbft.ActorID]*gpbft.ECChain{}
	d.commit = map[uint64]map[gpbft.ActorID]*gpbft.ECChain{}
	d.decide = map[gpbft.ActorID]*gpbft.ECChain{}
	d.converge = map[uint64]map[gpbft.ActorID]cvEntry{}
	d.proven = map[string]bool{}
	d.ownPrepare = map[uint64]*gpbft.ECChain{}
	d.prepareTimeout = map[uint64]time.Time{}
	d.qualityProposal = nil
	d.curRound = 0
}

// onStart is called from GetProposal, i.e. when the participant begins instance k.
func (d *discipline) onStart(k uint64, input *gpbft.ECChain, info *InstanceInfo) {
	if d == nil {
		return
	}
	d.reset(k, input, info)
	d.qualBefore = 0
	// queued messages are handed to the instance right after it starts
	q := d.queue[k]
	for kk := range d.queue {
		if kk <= k {
			delete(d.queue, kk)
		}
	}
	if len(q) > 0 {
		d.inDrain = true
		d.w.r.Probe("queued_future_instance_drained")
		for _, msg := range q {
			d.ingest(msg)
		}
	}
}

func (d *discipline) onAPIReturn() {
	if d != nil {
		d.inDrain = false
	}
}

func (d *discipline) onAlarm() {}

func (d *discipline) onSetAlarm(at time.Time) {
	if d != nil {
		d.lastAlarm = at
	}
}

func (d *discipline) foreign(msg *gpbft.GMessage) bool {
	if !suppEq(&msg.Vote.SupplementalData, &d.info.Supp) {
		return true
	}
	if !isBottom(msg.Vote.Value) && !hasBase(msg.Vote.Value, d.input.TipSets[0]) {
		return true
	}
	return false
}

// beforeDeliver is called just before ReceiveMessage with a validated message.
func (d *discipline) beforeDeliver(msg *gpbft.GMessage) {
	if d == nil {
		return
	}
	cur := d.m.part.Progress()
	k := msg.Vote.Instance
	switch {
	case k < cur.ID:
		return
	case d.active && k == d.k && cur.ID == d.k && cur.Phase != gpbft.INITIAL_PHASE:
		if !d.foreign(msg) {
			d.ingest(msg)
		}
	default:
		// queued for a future (or not yet begun) instance: first per (sender, round, phase);
		// unjustified messages beyond the look-ahead are not kept.
		if msg.Justification == nil && msg.Vote.Round > d.w.cfg.Lookahead && msg.Vote.Round > 0 {
			return
		}
		q := d.queue[k]
		if q == nil {
			q = map[qkey]*gpbft.GMessage{}
			d.queue[k] = q
		}
		key := qkey{msg.Sender, msg.Vote.Round, msg.Vote.Phase}
		if _, ok := q[key]; !ok {
			q[key] = msg
		}
	}
}

func (d *discipline) onDelivered(msg *gpbft.GMessage, err error) {}

func (d *discipline) ingest(msg *gpbft.GMessage) {
	if d.foreign(msg) {
		return
	}
	if msg.Justification != nil {
		d.proven[chainID(msg.Justification.Vote.Value)] = true
	}
	r := msg.Vote.Round
	switch msg.Vote.Phase {
	case gpbft.QUALITY_PHASE:
		if _, ok := d.quality[msg.Sender]; !ok {
			d.quality[msg.Sender] = msg.Vote.Value
		}
	case gpbft.PREPARE_PHASE:
		if d.prepare[r] == nil {
			d.prepare[r] = map[gpbft.ActorID]*gpbft.ECChain{}
		}
		if _, ok := d.prepare[r][msg.Sender]; !ok {
			d.prepare[r][msg.Sender] = msg.Vote.Value
		}
	case gpbft.COMMIT_PHASE:
		if d.commit[r] == nil {
			d.commit[r] = map[gpbft.ActorID]*gpbft.ECChain{}
		}
		if _, ok := d.commit[r][msg.Sender]; !ok {
			d.commit[r][msg.Sender] = msg.Vote.Value
		}
	case gpbft.DECIDE_PHASE:
		if _, ok := d.decide[msg.Sender]; !ok {
			d.decide[msg.Sender] = msg.Vote.Value
		}
	case gpbft.CONVERGE_PHASE:
		if d.converge[r] == nil {
			d.converge[r] = map[gpbft.ActorID]cvEntry{}
		}
		if _, ok := d.converge[r][msg.Sender]; !ok {
			d.converge[r][msg.Sender] = cvEntry{value: msg.Vote.Value, rank: gpbft.ComputeTicketRank(msg.Ticket, d.info.Scaled[msg.Sender])}
		}
	}
}

// longestQualityPrefixLen returns the number of tipsets of the longest prefix of the input that
// is backed by a strong quorum of delivered QUALITY votes (1 = base only).
func (d *discipline) longestQualityPrefixLen() int {
	best := 1
	for l := 2; l <= d.input.Len(); l++ {
		p := &gpbft.ECChain{TipSets: d.input.TipSets[:l]}
		var power int64
		for s, v := range d.quality {
			if isPrefixOf(p, v) {
				power += d.info.Scaled[s]
			}
		}
		if isStrong(power, d.info.T) {
			best = l
		}
	}
	return best
}

func (d *discipline) support(votes map[gpbft.ActorID]*gpbft.ECChain, v *gpbft.ECChain) (sup, senders int64) {
	for s, x := range votes {
		p := d.info.Scaled[s]
		senders += p
		if tipsetsEqual(x, v) {
			sup += p
		}
	}
	return
}

func (d *discipline) hasQuorumProof(v *gpbft.ECChain) bool {
	if d.proven[chainID(v)] {
		return true
	}
	for _, votes := range d.prepare {
		if s, _ := d.support(votes, v); isStrong(s, d.info.T) {
			return true
		}
	}
	for _, votes := range d.commit {
		if s, _ := d.support(votes, v); isStrong(s, d.info.T) {
			return true
		}
	}
	if s, _ := d.support(d.decide, v); isStrong(s, d.info.T) {
		return true
	}
	return false
}

// onBroadcastAttempt judges one RequestBroadcast. msg is nil when the member could not sign.
func (d *discipline) onBroadcastAttempt(mb *gpbft.MessageBuilder, msg *gpbft.GMessage) {
	if d == nil || !d.active {
		return
	}
	w, m := d.w, d.m
	p := mb.Payload
	if p.Instance != d.k {
		w.fail("C07", "emitted_wrong_instance", "instance", "member %d in instance %d emitted a message for instance %d", m.ID, d.k, p.Instance)
		return
	}
	sl := slot{p.Round, p.Phase}
	d.emitted[sl]++
	if d.emitted[sl] > 1 {
		w.fail("C07", "duplicate_emission", p.Phase.String(), "member %d emitted %d messages for instance %d round %d %s", m.ID, d.emitted[sl], d.k, p.Round, p.Phase)
		return
	}
	if p.Phase == gpbft.DECIDE_PHASE && p.Round != 0 {
		w.fail("C07", "decide_round_nonzero", "decide", "member %d emitted DECIDE with round %d", m.ID, p.Round)
		return
	}
	if !suppEq(&p.SupplementalData, &d.info.Supp) {
		w.fail("C07", "emitted_wrong_supplement", "supp", "member %d emitted foreign supplemental data", m.ID)
		return
	}
	v := p.Value
	T := d.info.T
	switch p.Phase {
	case gpbft.QUALITY_PHASE:
		if !tipsetsEqual(v, d.input) {
			w.fail("C07", "quality_not_input", "quality", "member %d QUALITY value %s differs from its input %s", m.ID, chainStr(v), chainStr(d.input))
		}
	case gpbft.PREPARE_PHASE:
		d.ownPrepare[p.Round] = v
		d.prepareTimeout[p.Round] = d.lastAlarm
		if p.Round == 0 {
			d.qualityProposal = v
			want := d.longestQualityPrefixLen()
			lo := want
			if d.inDrain {
				// the participant may have left QUALITY after a prefix of the drained queue
				lo = 1
				w.r.Probe("prepare_emitted_during_drain")
			}
			if !isPrefixOf(v, d.input) || v.Len() > want || v.Len() < lo {
				w.fail("C07", "prepare0_not_longest_quality_prefix", "prepare0",
					"member %d round-0 PREPARE value %s; longest prefix of input %s with a strong QUALITY quorum among %d delivered votes has %d tipsets",
					m.ID, chainStr(v), chainStr(d.input), len(d.quality), want)
			}
			if want > 1 && want < d.input.Len() {
				w.r.Probe("quality_partial_prefix")
			}
		} else {
			// best-ticket CONVERGE adoption
			var best *cvEntry
			for _, e := range d.converge[p.Round] {
				e := e
				if best == nil || e.rank < best.rank {
					best = &e
				}
			}
			adm := d.input
			if d.qualityProposal != nil {
				adm = d.qualityProposal // the candidates are the prefixes of the proposal formed from QUALITY
			}
			if best != nil && !isPrefixOf(best.value, adm) {
				// the round's best-ticket value is not among this member's candidates (not on its own
				// EC chain, or beyond the prefix that gathered a QUALITY quorum in its view): it cannot
				// adopt it (unless swayed by proof), whatever the implementation does
				d.w.noteIncompatibleBest(d.k, p.Round)
			}
			if best != nil && d.qualityProposal != nil && isPrefixOf(best.value, d.qualityProposal) {
				w.r.Probe("converge_best_is_prefix_of_quality_proposal")
				if best.value.Len() < d.qualityProposal.Len() {
					w.r.Probe("converge_best_is_proper_prefix")
				}
				if !tipsetsEqual(v, best.value) {
					w.fail("C07", "converge_best_prefix_not_adopted", "converge-adopt",
						"member %d round %d PREPARE value %s; best-ticket CONVERGE value %s is a prefix of its QUALITY proposal %s",
						m.ID, p.Round, chainStr(v), chainStr(best.value), chainStr(d.qualityProposal))
				}
			}
		}
	case gpbft.COMMIT_PHASE:
		if isBottom(v) {
			prop := d.ownPrepare[p.Round]
			if prop != nil {
				sup, senders := d.support(d.prepare[p.Round], prop)
				if isStrong(sup, T) {
					w.fail("C07", "commit_bottom_with_prepare_quorum", "commit-bottom",
						"member %d committed bottom in round %d holding a strong PREPARE quorum (%d of %d) for %s", m.ID, p.Round, sup, T, chainStr(prop))
				}
				if to, ok := d.prepareTimeout[p.Round]; ok && m.localTime(w.now()).Before(to) {
					if isStrong(sup+(T-senders), T) {
						w.fail("C07", "commit_bottom_before_timeout", "commit-early",
							"member %d committed bottom in round %d before the PREPARE timeout while a quorum for %s was still possible (support %d, unvoted %d, total %d)",
							m.ID, p.Round, chainStr(prop), sup, T-senders, T)
					}
					w.r.Probe("commit_bottom_early_impossible")
				}
			}
		}
	}
	if !isBottom(v) && !isPrefixOf(v, d.input) {
		w.r.Probe("vote_for_foreign_value")
		if !d.hasQuorumProof(v) {
			w.fail("C07", "vote_without_proof", p.Phase.String(),
				"member %d voted %s for %s which is neither a prefix of its input %s nor backed by a delivered strong-quorum proof",
				m.ID, p.Phase, chainStr(v), chainStr(d.input))
		}
	}
}
