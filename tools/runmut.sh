#!/bin/bash
# usage: runmut.sh PROP budget
cd /verif
for m in mutants/$1/*.patch; do bin/selftest mutant $m $1 $2 2>&1 | grep -E "^mutant|kind=" | cut -c1-220; done
