module verifinstr

go 1.21
