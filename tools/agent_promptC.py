import sys
pid=sys.argv[1]
prop=open('/tmp/prop-%s.txt'%pid).read()
print(f"""You are helping to evaluate a verification framework for the Go repository filecoin-project/go-f3 (Filecoin Fast Finality: GossipPBFT consensus, finality certificates, cert store/exchange, WAL, simulator). Your job is to play the role of a developer who introduces a subtle, realistic bug.

You have your own scratch git worktree of the repository at /tmp/wtC-{pid} (work ONLY there; never touch /repo or /verif, and never use `git stash` (it is shared between worktrees; use `git diff > file`, `git apply`, `git apply -R`), and do not read anything under /verif).

The semantic property under attack:

{prop}

TASK: produce up to THREE independent changes (each one a separate small patch against the unmodified worktree) to the repository's non-test Go code such that, for each change:
  1. the repository still compiles (`go build ./...`),
  2. the existing test suite still passes (at minimum run the tests of every package you touched and the packages that exercise it, e.g. `go test -vet=off -count=1 ./certstore/... ./certexchange/... ./internal/... ./certs/...`; if the change is in gpbft also `./gpbft/... ./sim/... ./emulator/...` and `go test -vet=off -count=1 -timeout 90m ./test/...` (slow: run once per change at the end); the root package tests (`go test .`) are timing sensitive on this loaded machine and may be skipped),
  3. the property above is violated by the changed code, and
  4. the violation needs something SPECIFIC to manifest — a particular interleaving or message ordering, a crash/fault at a particular point, a multi-step sequence, an unusual input (e.g. a boundary power distribution), or two cooperating sites that each look fine alone. Do NOT produce changes that ordinary use would expose at once (those would fail the existing tests anyway).
Spread the three changes over DIFFERENT mechanisms / files among those the property rests on (its anchors list several) and over different clauses of its statement; skip the single most obvious mutation of each site in favour of one a reviewer could plausibly wave through (a refactor, an optimisation, a 'simplification', a cache, a reordered pair of statements).
Aim at the parts of the property that are hardest to observe: behaviour across several consecutive instances, restarts or reopenings in the middle of an operation, concurrent callers, messages or inputs that arrive in an unusual order or twice, values at the exact arithmetic boundaries, and the rarely taken error / fallback / catch-up paths.
Prefer realistic mistakes: off-by-one, wrong comparison operator, missing check on a rarely-taken path, stale state reuse, wrong variable, missing reset, early return, boundary arithmetic.

For each change provide a DEMONSTRATION: a Go test file (placed in the appropriate package of the worktree, named zz_demo_<n>_test.go) or a small program that FAILS with the change applied and PASSES on the unmodified worktree. The demonstration should construct the specific scenario (you may use the repo's own emulator package, sim package, or drive gpbft.Participant directly with a hand-written host). Run it both ways and confirm.

Environment notes (the sandbox has no network):
  - run every shell command with: export GOFLAGS=-mod=mod GOPROXY=off
  - `go` resolves to the repo's toolchain automatically; module cache is populated; nothing can be downloaded.
  - files gpbft/verif_on.go / verif_off.go are a build-tag-guarded hook; leave them alone.
  - use `git -C /tmp/wtC-{pid} diff` to produce patches; `git -C /tmp/wtC-{pid} checkout -- . && git -C /tmp/wtC-{pid} clean -fd` resets the worktree between changes (save your files first!).

DELIVERABLES: create directory /tmp/seededC-{pid}/<n>/ for n = 1,2,3 containing:
  - patch.diff   (git diff of the non-test change only, applicable with `git apply` at the worktree root)
  - the demonstration file(s), plus a one-line `demo_cmd.txt` with the exact command to run it from the worktree root
  - notes.md: what the change is, why the existing tests do not catch it, exactly what is needed for it to manifest (schedule / fault / input), and the observed output of the demo with and without the patch.
Finish with the worktree reset to the unmodified state. In your final answer, summarise each change in 3-4 lines. If you could only produce fewer than three verified changes, say so; quality and verified behaviour matter more than count.""")
