#!/bin/bash
# usage: confirm_seeded.sh ID   -> writes /tmp/confirm-ID.log
export GOFLAGS=-mod=mod GOPROXY=off
ID=$1; WT=/tmp/wtC-$ID
for n in 1 2 3 4; do
  S=/tmp/seededC-$ID/$n
  [ -f $S/patch.diff ] || continue
  echo "=== $ID/$n"
  git -C $WT checkout -q -- . ; git -C $WT clean -fdq
  cmd=$(cat $S/demo_cmd.txt | head -1)
  # copy demo files
  for f in $S/*_test.go $S/*.go; do [ -f "$f" ] || continue; 
    pkgdir=$(grep -l "" /dev/null); 
  done
  # demo placement: infer package dir from demo_cmd (first ./path token) else gpbft
  dir=$(echo "$cmd" | grep -o '\./[a-zA-Z0-9_/]*' | head -1); [ -z "$dir" ] && dir=${DEMODIR:-./gpbft}
  cp $S/zz_demo_*_test.go $WT/$dir/ 2>/dev/null
  echo "demo dir: $dir ; cmd: $cmd"
  ( cd $WT && timeout 900 bash -c "$cmd" > /tmp/confirmC-$ID-$n-without.log 2>&1; echo "WITHOUT patch exit=$?" )
  ( cd $WT && git apply $S/patch.diff && echo "patch applied" && go build ./... && echo "build ok" )
  ( cd $WT && timeout 900 bash -c "$cmd" > /tmp/confirmC-$ID-$n-with.log 2>&1; echo "WITH patch exit=$?" )
  ( cd $WT && rm -f $dir/zz_demo_*_test.go && timeout 1800 go test -vet=off -count=1 ${TESTPKGS:-./gpbft/... ./sim/... ./emulator/... ./certs/...} 2>&1 | grep -v "no test files" | tail -4 )
  git -C $WT checkout -q -- . ; git -C $WT clean -fdq
done
