#!/bin/bash
# usage: runw.sh sim prop seed budget [extra args]  -> prints summary
sim=$1; prop=$2; seed=$3; budget=$4; shift 4
cd /verif
args=(-prop $prop -seed $seed -budget $budget -maxviol 4 -shrinktime 15s -replays /tmp/rep -out /tmp/o.json "$@")
if [ "$sim" = cxsim ]; then
  VA=$(printf '%s\x1f' "${args[@]}"); VA=${VA%$'\x1f'}
  GOMAXPROCS=1 VERIF_ARGS="$VA" .build/cxsim/cxsim -test.run '^TestWorker$' -test.timeout 0 2>&1 | tail -25 | cut -c1-300
else
  GOMAXPROCS=1 .build/$sim/$sim "${args[@]}" 2>&1 | tail -5
fi
python3 -c "
import sys,json
d=json.load(open('/tmp/o.json'))
print('runs',d['runs'],'steps',d['steps'],'wall',round(d['wall_s'],1),'sim_s',d['sim_ns']/1e9)
print('faults',d['faults'])
print('probes',d['probes'])
for v in d['violations'] or []: print('VIOL',v['violation']['kind'],v['violation']['key'],v['violation']['detail'][:500],v['replay'],v['choices'],v['original_choices'])
print(d['infra_errors'])
"
