#!/bin/bash
# usage: runseededC.sh ID props budget   (runs in the dev worktree of /verif)
cd /tmp/verif-dev
for n in 1 2 3 4; do
  p=/tmp/seededC-$1/$n/patch.diff
  [ -f $p ] || continue
  echo "=== seeded $1/$n"
  bin/selftest mutant $p $2 $3 2>&1 | grep -E "^mutant|kind=|PATCH" | cut -c1-260
done
