import json,os,shutil,glob,sys
# usage: file_seeded.py ID 'n:caught a|caught b;n:...' 'tests string'
pid=sys.argv[1]; spec=sys.argv[2]; tests=sys.argv[3]
caught={}
for part in spec.split(';'):
    n,by=part.split(':',1); caught[int(n)]=[x.strip() for x in by.split('|')]
for n,by in caught.items():
    src='/tmp/seededC-%s/%d'%(pid,n); dst='/tmp/verif-dev/seeded/%s-C%d'%(pid,n)
    os.makedirs(dst,exist_ok=True)
    for f in glob.glob(src+'/*'):
        b=os.path.basename(f)
        if os.path.isfile(f) and (b.endswith('.go') or b in ('patch.diff','demo_cmd.txt','notes.md')):
            shutil.copy(f,dst)
    notes=open(src+'/notes.md').read() if os.path.exists(src+'/notes.md') else ''
    needs=''
    for line in notes.splitlines():
        l=line.lower()
        if ('manifest' in l or 'needs' in l or 'requires' in l or 'trigger' in l) and len(line)>30:
            needs=line.strip(' -*#'); break
    meta={"property":pid,"origin":"fresh sub-agent given only the property text and a scratch worktree of /repo",
          "needs_to_manifest":needs or "see notes.md",
          "confirmed_by_me":{"scratch_worktree":"/tmp/wtC-%s (git worktree of /repo, removed afterwards)"%pid,
             "ran":["demo (demo_cmd.txt) on the unmodified worktree: PASS","git apply patch.diff; go build ./...: ok","demo with the patch: FAIL","go test -vet=off -count=1 %s with the patch: ok"%tests,"further suites (e.g. ./test/..., root package) as reported in notes.md by the sub-agent"]},
          "checks_run":"bin/selftest mutant seeded/%s-C%d/patch.diff <props> 30-40 (scratch copy of /repo under /var/tmp, removed afterwards)"%(pid,n),
          "caught_by":by}
    json.dump(meta,open(dst+'/meta.json','w'),indent=1)
print('filed',pid,sorted(caught))
